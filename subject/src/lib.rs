//! empty: exists only so cargo builds the dependencies
