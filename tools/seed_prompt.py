import sys, json
pid=sys.argv[1]
for l in open('/verif/properties.jsonl'):
    p=json.loads(l)
    if p['id']==pid: break
d=(sys.argv[2] if len(sys.argv) > 2 else '/tmp/seed_')+pid
print(f"""You are working alone in a scratch git worktree of the Rust crate audunhalland/entrait at {d} (a proc-macro crate that generates traits and delegating impls from functions, modules, traits and impl blocks, for dependency injection and mocking). Work ONLY inside {d}; never touch /repo or /verif, and do not read anything under /repo or /verif either (your worktree has the whole source). The sandbox is offline: always pass --offline to cargo. The existing test suite is run with `cd {d} && cargo nextest run --workspace --no-fail-fast --offline` (40 tests; fallback: `cargo test --workspace --no-fail-fast --offline`). Start by reading README.md and ALL of entrait_macros/src/ (it is ~4000 lines) so that you know the less-travelled code paths.

Here is a semantic property this code base is supposed to satisfy:

  Title: {p['title']}
  Statement: {p['statement']}
  Quantified over: {p['quantifier']['text']}

Your task: produce THREE independent changes (three different mechanisms at three different code sites) to the library source (entrait_macros/src/** or src/**) each of which BREAKS this property while (a) the whole workspace still compiles and (b) the complete existing test suite still passes, unedited. Each change must be realistic (the kind of slip a maintainer could make in a refactor, an optimisation or a well-meant 'improvement') and as subtle as you can make it: it must need something specific to manifest - a rarely used input shape, a particular combination of two or three options or language features, a particular position or ordering (second item, last parameter, repeated element), an interaction between two code sites that each look fine alone, or state carried from one macro invocation to the next - and must NOT be exposed by ordinary use. Prefer sites and mechanisms a reviewer would least suspect; avoid the first idea that comes to mind, and prefer the less common input modes and interactions (modules, impl blocks, entraited traits with delegation targets, concrete dependencies and their nested invocation, macro_rules!-generated input, cfg, async) over a plain single function where the property allows it. Do not edit existing tests. Do not touch entrait_macros/src/verif.rs or any code guarded by cfg(audunhalland_entrait_verif).

For each change also write a demonstration: a small self-contained test or script that FAILS with the change applied and PASSES on the unmodified tree (e.g. a new integration test file tests/seeded_demo_a.rs run with `cargo test --offline --test seeded_demo_a`, with `--features unimock` if needed; or a shell script that compiles a small program and checks the outcome when the property is about something that must not compile or about emitted tokens).

Deliverables, in {d}/SEED_OUT/a/, {d}/SEED_OUT/b/ and {d}/SEED_OUT/c/ :
  - patch.diff : `git diff` of the library source change ONLY (must apply with `git apply` to a clean checkout of HEAD)
  - the demonstration file(s) plus run_demo.sh (takes the worktree dir as $1 or uses its own location; copies the demo into place if needed and removes it again on exit; exits 0 if the property holds = demo passes, non-zero if broken)
  - meta.json : {{"property": "{pid}", "summary": "...", "needs_to_manifest": "...", "files_changed": [...], "verified": "what you ran and saw"}}
You must verify yourself, and say so in meta.json: with the patch applied the full suite passes and the demo fails; on the clean tree the demo passes. When done, leave the worktree's tracked files clean (git checkout -- . ; no demo files left in tests/ or examples/) and remove bulky build output you created outside {d}/target. Report briefly what the three changes are. If, while reading the code, you notice inputs for which the UNMODIFIED tree already violates the property, list them at the end of your report (do not use them as seeds).""")
