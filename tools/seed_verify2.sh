#!/bin/bash
# usage: seed_verify2.sh <worktree> <variant a|b|c> <out id>   (round-2 seeds: /tmp/seed2_Cxx/SEED_OUT/<variant> -> /verif/seeded/<out id>/)
set -u
W=$1; V=$2; ID=$3
S=$W/SEED_OUT/$V; OUT=/verif/seeded/$ID
cd $W || exit 2
git checkout -q -- . ; git clean -fdq tests examples src entrait_macros
LOG=$(mktemp)
echo "== seed $ID verified $(date -u +%FT%TZ) in scratch worktree $W (base $(git rev-parse --short HEAD))" > $LOG
bash $S/run_demo.sh $W > $LOG.d0 2>&1; d0=$?
echo "demo on clean tree: exit $d0" >> $LOG
git checkout -q -- . ; git clean -fdq tests examples src entrait_macros
git apply $S/patch.diff || { echo "patch does not apply" >> $LOG; cat $LOG; exit 2; }
(cargo nextest run --workspace --no-fail-fast --offline 2>&1 || true) > $LOG.s
grep -q "40 tests run: 40 passed" $LOG.s; s1=$?
echo "suite with patch: $(grep Summary $LOG.s) (ok=$((1-s1)))" >> $LOG
bash $S/run_demo.sh $W > $LOG.d1 2>&1; d1=$?
echo "demo with patch: exit $d1" >> $LOG
tail -5 $LOG.d1 | sed 's/^/    /' >> $LOG
git checkout -q -- . ; git clean -fdq tests examples src entrait_macros
if [ $d0 -eq 0 ] && [ $s1 -eq 0 ] && [ $d1 -ne 0 ]; then
  echo "VERDICT: confirmed" >> $LOG
  mkdir -p $OUT; cp -r $S/* $OUT/; cp $LOG $OUT/VERIFIED.txt
else
  echo "VERDICT: NOT confirmed" >> $LOG
fi
cat $LOG; rm -f $LOG $LOG.*
