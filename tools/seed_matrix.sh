#!/bin/bash
# usage: seed_matrix.sh [ids...]   -- for every confirmed seed under /verif/seeded/<id>/ applies its patch (the original one if it
# still applies to the current /repo HEAD, else patch_ported_to_fixed_tree.diff), runs the quick check of its own property (plus
# any extra checks listed in EXTRA_<id>), reverts, and writes seeded/<id>/caught_by.json
cd /verif
EVBAK=$(mktemp -d); cp -r /verif/evidence/. $EVBAK/ 2>/dev/null
ids=${@:-$(ls seeded | grep -E "^C[0-9]+(r2|r3|r4|r5|r6|r7)?[abc]$")}
for id in $ids; do
  d=seeded/$id; prop=${id:0:3}
  patch=""
  for cand in $d/patch_ported_to_fixed_tree.diff $d/patch.diff; do
    [ -f $cand ] && git -C /repo apply --check $PWD/$cand 2>/dev/null && { patch=$PWD/$cand; break; }
  done
  if [ -z "$patch" ]; then echo "$id: NO APPLICABLE PATCH"; continue; fi
  git -C /repo apply $patch
  res="{\"seed\":\"$id\",\"patch_used\":\"$(basename $patch)\",\"repo_head\":\"$(git -C /repo rev-parse --short HEAD)\",\"checks\":{"
  first=1
  cross=""; [ -f $d/cross_check.txt ] && cross=$(cat $d/cross_check.txt)   # seeds that only another property's check catches
  for c in $prop ${EXTRA:-} $cross; do
    out=$(./check $c 2>&1); rc=$?
    nv=$(echo "$out" | grep -c '^VIOLATION')
    top=$(echo "$out" | grep -E "^ +[0-9]+ x " | head -3 | sed 's/  e.g. tags=.*//; s/^ *//' | tr '\n' ';' | sed 's/"/\\"/g')
    [ $first -eq 0 ] && res="$res,"; first=0
    res="$res\"$c\":{\"exit\":$rc,\"violation_lines\":$nv,\"top_signatures\":\"$top\"}"
    echo "$id [$c rc=$rc] $top"
  done
  res="$res}}"
  echo "$res" > $d/caught_by.json
  git -C /repo reset -q --hard HEAD; rm -rf /verif/replays
done
# evidence files are rewritten by every run: put back the ones produced on the unchanged tree
rm -rf /verif/evidence; mkdir -p /verif/evidence; cp -r $EVBAK/. /verif/evidence/; rm -rf $EVBAK
