#!/bin/bash
# For every seed whose stored patch no longer applies to /repo HEAD: try a 3-way merge; if it merges without conflicts and the macro
# crate still builds, store the merged diff as patch_ported_to_fixed_tree.diff. Prints the ids that still need a manual port.
cd /repo || exit 2
[ -n "$(git status --porcelain --untracked-files=no)" ] && { echo "/repo not clean"; exit 2; }
head=$(git rev-parse --short HEAD)
for d in /verif/seeded/*/; do
  id=$(basename $d)
  [ -f $d/NEUTRALISED.txt ] && continue
  applies=0
  for cand in $d/patch_ported_to_fixed_tree.diff $d/patch.diff; do [ -f $cand ] && git apply --check $cand 2>/dev/null && applies=1 && break; done
  [ $applies -eq 1 ] && continue
  merged=0
  for cand in $d/patch_ported_to_fixed_tree.diff $d/patch.diff; do
    [ -f $cand ] || continue
    if git apply --3way $cand >/dev/null 2>&1 && [ -z "$(git diff --name-only --diff-filter=U)" ] && cargo build -q -p entrait_macros --offline >/dev/null 2>&1; then
      git diff --cached > /tmp/ported_$id.diff
      merged=1
    fi
    git reset -q --hard HEAD
    [ $merged -eq 1 ] && break
  done
  if [ $merged -eq 1 ]; then
    mv /tmp/ported_$id.diff $d/patch_ported_to_fixed_tree.diff
    echo "3-way merge of the stored patch onto $head (context lines only; macro crate builds)" >> $d/PORTED.txt
    echo "refreshed $id"
  else
    echo "NEEDS MANUAL PORT: $id"
  fi
done
