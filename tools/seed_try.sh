#!/bin/bash
# usage: seed_try.sh <patch.diff> <check ids...>   -- applies the patch to /repo, runs the quick checks, reverts.
patch=$1; shift
cd /repo || exit 2
if [ -n "$(git status --porcelain --untracked-files=no)" ]; then echo "/repo not clean"; exit 2; fi
git apply "$patch" 2>/dev/null || git apply --3way "$patch" 2>/dev/null || { echo "PATCH DOES NOT APPLY: $patch"; git reset -q --hard HEAD; exit 3; }
cd /verif
EVBAK=$(mktemp -d); cp -r /verif/evidence/. $EVBAK/ 2>/dev/null
for c in "$@"; do
  out=$(VERIF_TIER=${TIER:-quick} ./check $c 2>&1); rc=$?
  echo "[$c rc=$rc] $(echo "$out" | grep -c '^VIOLATION') violation lines; $(echo "$out" | tail -1)"
  echo "$out" | grep -E "^ +[0-9]+ x " | head -4
done
git -C /repo reset -q --hard HEAD; rm -rf /verif/replays
# evidence files are rewritten by every run: put back the ones produced on the unchanged tree
rm -rf /verif/evidence; mkdir -p /verif/evidence; cp -r $EVBAK/. /verif/evidence/; rm -rf $EVBAK
