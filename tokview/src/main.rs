//! tokview: structural / token-level views of Rust token strings, as JSON.
//!
//! Reads JSON-lines requests on stdin `{"id":..,"op":"tt"|"norm"|"file"|"paths","src":".."}` and answers with
//! one JSON line each.  Used by the Python model checker to look at recorded macro expansions through
//! `syn` (the same parser on both sides of every comparison).

use proc_macro2::{Delimiter, TokenStream, TokenTree};
use quote::ToTokens;
use serde_json::{json, Value};
use std::io::{BufRead, Write};

fn s<T: ToTokens>(t: &T) -> String {
    t.to_token_stream().to_string()
}
fn opt_s<T: ToTokens>(t: &Option<T>) -> Value {
    match t {
        Some(t) => Value::String(s(t)),
        None => Value::Null,
    }
}

fn tt(ts: TokenStream) -> Value {
    Value::Array(
        ts.into_iter()
            .map(|t| match t {
                TokenTree::Ident(i) => json!(["i", i.to_string()]),
                TokenTree::Punct(p) => json!([
                    "p",
                    p.as_char().to_string(),
                    p.spacing() == proc_macro2::Spacing::Joint
                ]),
                TokenTree::Literal(l) => json!(["l", l.to_string()]),
                TokenTree::Group(g) => {
                    let d = match g.delimiter() {
                        Delimiter::Parenthesis => "(",
                        Delimiter::Brace => "{",
                        Delimiter::Bracket => "[",
                        Delimiter::None => "",
                    };
                    json!(["g", d, tt(g.stream())])
                }
            })
            .collect(),
    )
}

fn attrs(a: &[syn::Attribute]) -> Value {
    Value::Array(
        a.iter()
            .map(|a| {
                json!({
                    "path": s(a.path()),
                    "tokens": s(a),
                    "inner": matches!(a.style, syn::AttrStyle::Inner(_)),
                    "meta": s(&a.meta),
                })
            })
            .collect(),
    )
}

fn bounds(b: &syn::punctuated::Punctuated<syn::TypeParamBound, syn::Token![+]>) -> Value {
    Value::Array(b.iter().map(|b| Value::String(s(b))).collect())
}

fn generics(g: &syn::Generics) -> Value {
    let params: Vec<Value> = g
        .params
        .iter()
        .map(|p| match p {
            syn::GenericParam::Type(t) => json!({
                "k":"type","ident":t.ident.to_string(),"bounds":bounds(&t.bounds),
                "attrs":attrs(&t.attrs),"default":opt_s(&t.default),"tokens":s(t)}),
            syn::GenericParam::Lifetime(l) => json!({
                "k":"lifetime","ident":l.lifetime.to_string(),
                "bounds": l.bounds.iter().map(|b| b.to_string()).collect::<Vec<_>>(),
                "attrs":attrs(&l.attrs),"tokens":s(l)}),
            syn::GenericParam::Const(c) => json!({
                "k":"const","ident":c.ident.to_string(),"ty":s(&c.ty),
                "attrs":attrs(&c.attrs),"default":opt_s(&c.default),"tokens":s(c)}),
        })
        .collect();
    let wh: Vec<Value> = match &g.where_clause {
        None => vec![],
        Some(w) => w
            .predicates
            .iter()
            .map(|p| match p {
                syn::WherePredicate::Type(t) => json!({
                    "k":"type","bounded":s(&t.bounded_ty),"for":opt_s(&t.lifetimes),
                    "bounds":bounds(&t.bounds),"tokens":s(t)}),
                syn::WherePredicate::Lifetime(l) => json!({
                    "k":"lifetime","bounded":l.lifetime.to_string(),
                    "bounds": l.bounds.iter().map(|b| b.to_string()).collect::<Vec<_>>(),
                    "tokens":s(l)}),
                other => json!({"k":"other","tokens":s(other)}),
            })
            .collect(),
    };
    json!({"params":params,"where":wh,"has_where":g.where_clause.is_some(),
           "tokens_params": s(&g.params)})
}

fn pat_info(p: &syn::Pat) -> Value {
    match p {
        syn::Pat::Ident(i) => json!({"kind":"ident","ident":i.ident.to_string(),
            "by_ref":i.by_ref.is_some(),"mut":i.mutability.is_some(),"sub":i.subpat.is_some(),
            "attrs":attrs(&i.attrs)}),
        syn::Pat::Wild(_) => json!({"kind":"wild"}),
        syn::Pat::Tuple(_) => json!({"kind":"tuple"}),
        syn::Pat::TupleStruct(_) => json!({"kind":"tuple_struct"}),
        syn::Pat::Struct(_) => json!({"kind":"struct"}),
        syn::Pat::Reference(_) => json!({"kind":"reference"}),
        syn::Pat::Slice(_) => json!({"kind":"slice"}),
        _ => json!({"kind":"other"}),
    }
}

fn sig(sg: &syn::Signature) -> Value {
    let inputs: Vec<Value> = sg
        .inputs
        .iter()
        .map(|a| match a {
            syn::FnArg::Receiver(r) => json!({
                "k":"receiver","attrs":attrs(&r.attrs),"ref":r.reference.is_some(),
                "lifetime": r.reference.as_ref().and_then(|(_,l)| l.as_ref().map(|l| l.to_string())),
                "mut":r.mutability.is_some(),"colon":r.colon_token.is_some(),"ty":s(&r.ty),"tokens":s(r)}),
            syn::FnArg::Typed(t) => json!({
                "k":"typed","attrs":attrs(&t.attrs),"pat":s(&t.pat),"pat_info":pat_info(&t.pat),
                "ty":s(&t.ty),"tokens":s(t)}),
        })
        .collect();
    json!({
        "constness":sg.constness.is_some(),"asyncness":sg.asyncness.is_some(),
        "unsafety":sg.unsafety.is_some(),"abi":opt_s(&sg.abi),"ident":sg.ident.to_string(),
        "generics":generics(&sg.generics),"inputs":inputs,"variadic":sg.variadic.is_some(),
        "output": match &sg.output { syn::ReturnType::Default => Value::Null, syn::ReturnType::Type(_,t) => Value::String(s(t)) },
        "tokens":s(sg),
    })
}

fn vis(v: &syn::Visibility) -> Value {
    Value::String(s(v))
}

fn item(it: &syn::Item) -> Value {
    match it {
        syn::Item::Fn(f) => json!({"k":"fn","attrs":attrs(&f.attrs),"vis":vis(&f.vis),"sig":sig(&f.sig),
            "body":s(&f.block),"tokens":s(f)}),
        syn::Item::Trait(t) => {
            let items: Vec<Value> = t.items.iter().map(|ti| match ti {
                syn::TraitItem::Fn(f) => json!({"k":"fn","attrs":attrs(&f.attrs),"sig":sig(&f.sig),
                    "default":opt_s(&f.default),"semi":f.semi_token.is_some(),"tokens":s(f)}),
                syn::TraitItem::Type(ty) => json!({"k":"type","attrs":attrs(&ty.attrs),"ident":ty.ident.to_string(),
                    "generics":generics(&ty.generics),"bounds":bounds(&ty.bounds),
                    "default": ty.default.as_ref().map(|(_,t)| s(t)),"tokens":s(ty)}),
                syn::TraitItem::Const(c) => json!({"k":"const","ident":c.ident.to_string(),"tokens":s(c)}),
                other => json!({"k":"other","tokens":s(other)}),
            }).collect();
            json!({"k":"trait","attrs":attrs(&t.attrs),"vis":vis(&t.vis),"unsafety":t.unsafety.is_some(),
                "auto":t.auto_token.is_some(),"ident":t.ident.to_string(),"generics":generics(&t.generics),
                "colon":t.colon_token.is_some(),"supertraits":bounds(&t.supertraits),"items":items,"tokens":s(t)})
        }
        syn::Item::Impl(i) => {
            let items: Vec<Value> = i.items.iter().map(|ii| match ii {
                syn::ImplItem::Fn(f) => json!({"k":"fn","attrs":attrs(&f.attrs),"vis":vis(&f.vis),
                    "defaultness":f.defaultness.is_some(),"sig":sig(&f.sig),"body":s(&f.block),"tokens":s(f)}),
                syn::ImplItem::Type(t) => json!({"k":"type","ident":t.ident.to_string(),"tokens":s(t)}),
                syn::ImplItem::Const(c) => json!({"k":"const","ident":c.ident.to_string(),"tokens":s(c)}),
                other => json!({"k":"other","tokens":s(other)}),
            }).collect();
            json!({"k":"impl","attrs":attrs(&i.attrs),"unsafety":i.unsafety.is_some(),
                "defaultness":i.defaultness.is_some(),"generics":generics(&i.generics),
                "trait": i.trait_.as_ref().map(|(_,p,_)| s(p)),
                "neg": i.trait_.as_ref().map(|(n,_,_)| n.is_some()).unwrap_or(false),
                "self_ty":s(&i.self_ty),"items":items,"tokens":s(i)})
        }
        syn::Item::Mod(m) => json!({"k":"mod","attrs":attrs(&m.attrs),"vis":vis(&m.vis),
            "unsafety":m.unsafety.is_some(),"ident":m.ident.to_string(),
            "items": m.content.as_ref().map(|(_,its)| its.iter().map(item).collect::<Vec<_>>()),
            "tokens":s(m)}),
        syn::Item::Use(u) => json!({"k":"use","attrs":attrs(&u.attrs),"vis":vis(&u.vis),
            "leading_colon":u.leading_colon.is_some(),"tree":s(&u.tree),"tokens":s(u)}),
        syn::Item::Macro(m) => json!({"k":"macro","attrs":attrs(&m.attrs),"path":s(&m.mac.path),
            "ident": m.ident.as_ref().map(|i| i.to_string()),
            "body":m.mac.tokens.to_string(),"tokens":s(m)}),
        other => {
            let kind = match other {
                syn::Item::Struct(_) => "struct", syn::Item::Enum(_) => "enum", syn::Item::Const(_) => "const",
                syn::Item::Static(_) => "static", syn::Item::Type(_) => "type", syn::Item::Union(_) => "union",
                syn::Item::ExternCrate(_) => "extern_crate", syn::Item::ForeignMod(_) => "foreign_mod",
                syn::Item::TraitAlias(_) => "trait_alias", syn::Item::Verbatim(_) => "verbatim", _ => "unknown",
            };
            json!({"k":"other","kind":kind,"tokens":s(other)})
        }
    }
}

struct PathCollector {
    out: Vec<Value>,
}
impl<'ast> syn::visit::Visit<'ast> for PathCollector {
    fn visit_path(&mut self, p: &'ast syn::Path) {
        self.out.push(json!({
            "leading_colon": p.leading_colon.is_some(),
            "segments": p.segments.iter().map(|sg| sg.ident.to_string()).collect::<Vec<_>>(),
            "tokens": s(p),
        }));
        syn::visit::visit_path(self, p);
    }
    fn visit_macro(&mut self, m: &'ast syn::Macro) {
        // also look inside macro bodies that happen to parse as a file or expression
        syn::visit::visit_macro(self, m);
    }
}

/// Rebuild a token stream from the recorder's JSON token tree.
fn from_tt(v: &Value) -> Result<TokenStream, String> {
    use proc_macro2::{Group, Ident, Literal, Punct, Spacing, Span};
    let mut out = TokenStream::new();
    for t in v.as_array().ok_or("tt: not an array")? {
        let kind = t[0].as_str().ok_or("tt: kind")?;
        let tree: TokenTree = match kind {
            "i" => {
                let name = t[1].as_str().ok_or("tt: ident")?;
                if let Some(raw) = name.strip_prefix("r#") {
                    Ident::new_raw(raw, Span::call_site()).into()
                } else {
                    std::panic::catch_unwind(|| Ident::new(name, Span::call_site()))
                        .map_err(|_| format!("tt: bad ident {name}"))?
                        .into()
                }
            }
            "p" => {
                let ch = t[1].as_str().and_then(|s| s.chars().next()).ok_or("tt: punct")?;
                let joint = t[2].as_i64().map(|n| n != 0).or(t[2].as_bool()).unwrap_or(false);
                Punct::new(ch, if joint { Spacing::Joint } else { Spacing::Alone }).into()
            }
            "l" => {
                let text = t[1].as_str().ok_or("tt: literal")?;
                text.parse::<Literal>().map_err(|e| format!("tt: literal {text}: {e}"))?.into()
            }
            "g" => {
                let d = match t[1].as_str().ok_or("tt: delim")? {
                    "(" => Delimiter::Parenthesis,
                    "{" => Delimiter::Brace,
                    "[" => Delimiter::Bracket,
                    _ => Delimiter::None,
                };
                Group::new(d, from_tt(&t[2])?).into()
            }
            other => return Err(format!("tt: unknown kind {other}")),
        };
        out.extend(std::iter::once(tree));
    }
    Ok(out)
}

fn handle(req: &Value) -> Value {
    let op = req["op"].as_str().unwrap_or("");
    let ts: TokenStream = if let Some(src) = req["src"].as_str() {
        match src.parse() {
            Ok(ts) => ts,
            Err(e) => return json!({"error": format!("lex: {e}")}),
        }
    } else {
        match from_tt(&req["tt"]) {
            Ok(ts) => ts,
            Err(e) => return json!({"error": e}),
        }
    };
    match op {
        "norm" => json!({"norm": ts.to_string()}),
        "tt" => json!({"tt": tt(ts)}),
        "file" => match syn::parse2::<syn::File>(ts) {
            Ok(f) => json!({"attrs":attrs(&f.attrs),"items": f.items.iter().map(item).collect::<Vec<_>>()}),
            Err(e) => json!({"error": format!("parse: {e}")}),
        },
        "paths" => match syn::parse2::<syn::File>(ts) {
            Ok(f) => {
                let mut c = PathCollector { out: vec![] };
                syn::visit::Visit::visit_file(&mut c, &f);
                json!({"paths": c.out})
            }
            Err(e) => json!({"error": format!("parse: {e}")}),
        },
        _ => json!({"error":"unknown op"}),
    }
}

fn main() {
    let stdin = std::io::stdin();
    let stdout = std::io::stdout();
    let mut out = std::io::BufWriter::new(stdout.lock());
    for line in stdin.lock().lines() {
        let line = line.expect("stdin");
        if line.trim().is_empty() {
            continue;
        }
        let req: Value = serde_json::from_str(&line).expect("request json");
        let mut resp = std::panic::catch_unwind(|| handle(&req))
            .unwrap_or_else(|_| json!({"error":"tokview panic"}));
        resp["id"] = req["id"].clone();
        writeln!(out, "{}", resp).unwrap();
    }
    out.flush().unwrap();
}
