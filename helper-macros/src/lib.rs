//! Foreign attribute macros used as alphabet symbols by the checks (no dependencies).
use proc_macro::{TokenStream, TokenTree};
use std::io::Write;

/// Identity attribute.
#[proc_macro_attribute]
pub fn id(_attr: TokenStream, item: TokenStream) -> TokenStream {
    item
}

/// Identity attribute whose last path segment is `automock` (entrait classifies attributes by that name).
#[proc_macro_attribute]
pub fn automock(_attr: TokenStream, item: TokenStream) -> TokenStream {
    item
}

/// Identity attribute that logs `<attr>\t<name of the fn it sees>` to $VERIF_HELPER_LOG.
#[proc_macro_attribute]
pub fn count(attr: TokenStream, item: TokenStream) -> TokenStream {
    let mut name = String::from("?");
    let mut prev_fn = false;
    for t in item.clone() {
        if let TokenTree::Ident(i) = &t {
            if prev_fn {
                name = i.to_string();
                break;
            }
            let s = i.to_string();
            prev_fn = s == "fn" || s == "trait" || s == "mod" || s == "impl";
        } else {
            prev_fn = false;
        }
    }
    if let Some(path) = std::env::var_os("VERIF_HELPER_LOG") {
        if let Ok(mut f) = std::fs::OpenOptions::new().create(true).append(true).open(path) {
            let line = format!("{}\t{}\t{}\n", attr.to_string(), name, std::process::id());
            let _ = f.write_all(line.as_bytes());
        }
    }
    item
}
