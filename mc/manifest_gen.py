"""Regenerates MANIFEST.json from the table below (run: python3 -m mc.manifest_gen)."""
import json
import os

VERIF = os.path.dirname(os.path.dirname(os.path.abspath(__file__)))

CHECKS = {
    # id: (level text, level note, technique, design ref)
}

NOT_BUILT = {}


def load_table():
    from . import manifest_table
    return manifest_table.CHECKS, manifest_table.NOT_APPLICABLE


def main():
    checks, na = load_table()
    props = [json.loads(l)["id"] for l in open(os.path.join(VERIF, "properties.jsonl"))]
    out = {
        "version": 1,
        "setup_cmd": "./setup.sh",
        "hooks": {
            "guard": "--cfg audunhalland_entrait_verif",
            "enable": "RUSTFLAGS='--cfg audunhalland_entrait_verif' cargo build in /verif/subject (path dependency on /repo, own CARGO_TARGET_DIR /verif/.cache/subject); every check does this itself",
            "baseline_off_cmd": "cd /repo && cargo nextest run --workspace --no-fail-fast --offline || cargo test --workspace --no-fail-fast --offline",
            "source_commits": ["1a633f1 verif hook: expansion recorder behind --cfg audunhalland_entrait_verif",
            "7b5918f verif hook: rustfmt (formatting of the guarded code only)"],
            "add_only": True,
        },
        "engines": [
            {"name": "entrait-mc", "path": "mc/", "serves_properties": [p for p in props if p in checks],
             "kind_free_text": "explicit-state BFS over program-construction alphabets; every state rendered to Rust source, expanded by the real entrait_macros (built from /repo's working tree with the recorder hook), compiled by rustc in batched shard crates, executed, and compared with a reference model written in Python"},
            {"name": "tokview", "path": "tokview/", "serves_properties": [p for p in props if p in checks],
             "kind_free_text": "syn-based structural view of recorded expansions (same parser on both sides of every comparison)"},
        ],
        "checks": [],
        "not_applicable": [],
        "notes": "All checks: ./check <id> [--tier quick|thorough] [--replay <path>]; exit 0 held / 1 violation / 2 machinery failure. Known findings: known_findings.json.",
    }
    for p in props:
        if p in checks:
            c = checks[p]
            out["checks"].append({
                "property_id": p,
                "quick_cmd": "./check %s --tier quick" % p,
                "thorough_cmd": "./check %s --tier thorough" % p,
                "evidence_file": "evidence/%s.json" % p,
                "replay_cmd_template": "./check %s --replay {path}" % p,
                "engine": "entrait-mc",
                "level_claimed": {"category": "model_checking", "text": c["text"], "design_ref": c["ref"]},
                "level_note": c["note"],
                "technique": c["technique"],
            })
        else:
            out["not_applicable"].append({"property_id": p, "reason": na.get(p, "check not built yet (work in progress); not claimed")})
    with open(os.path.join(VERIF, "MANIFEST.json"), "w") as f:
        json.dump(out, f, indent=1)
        f.write("\n")


if __name__ == "__main__":
    main()
