"""Per-property manifest entries."""
NOTE = ("Trusted: rustc 1.95 (expansion, name resolution, trait selection, borrowck, codegen) and its JSON diagnostics; "
        "syn 2 for structural views; the generated scaffolding (its direct-call side is compiled too, a scaffold bug is exit 2). "
        "Exhaustive only within the stated alphabet and bound.")

CHECKS = {
    "C01": dict(
        text="Every parameter word up to the bound over an 8-symbol parameter alphabet, crossed with 8 dependency forms (incl. by-value concrete), sync/async, "
             "single fn / 3 same-signature sibling fns in a module / macro_rules-stamped fn with hygiene-only parameter differences, mockable or not, both crate features, is compiled with the real "
             "macro and executed; the trait call's trace (function id, receiver address+type, position-coded arguments), result and "
             "&mut effects must equal the model's prediction and the direct call's. Exhaustive enumeration, no sampling.",
        note=NOTE, technique="bounded-exhaustive explicit-state enumeration of programs, executed on the real macro, compared with a reference model",
        ref="DESIGN.md §3 C01"),
    "C02": dict(
        text="fn: the default function plus every combination of <=2 (quick) / <=3 (thorough) deviations over 8 syntactic dimensions "
             "(attributes above/below, visibility, qualifiers, generics/where, parameter attributes/trailing comma, return type, 10 body "
             "token soups); mod: every item word up to the bound over an 18-symbol item alphabet, modules with inner attributes, macro_rules-stamped "
             "modules / impl blocks / fns (invisible groups); impl: every item word over 7 symbols x {static, ref} x attribute sets below entrait "
             "(doc / automock / async_trait / mixed). Each state is expanded by the real macro; the recorded input token tree must be a prefix of the output (fn), "
             "of the module body followed only by the generated trait+impl and the re-export (mod), or equal to the inherent impl's body (impl).",
        note=NOTE, technique="bounded-exhaustive enumeration of programs; token-tree comparison of recorded macro input vs output (identity model)",
        ref="DESIGN.md §3 C02"),
    "C03": dict(
        text="12 dependency forms (&impl, `(&impl)` in parentheses, unused `_: &impl`, &D inline / declared after the const parameters / where-bound / bound by a `for<>` where-predicate, by-value generic / impl, concrete by reference and by value, no_deps) x every "
             "extra-parameter word <= 1 (quick) / <= 2 (thorough) over 22 symbols {i64, &X elided, &'b X named, T: Bound inline, U where-bound, [u8; N] with const N, impl "
             "Trait, &dyn, fn pointer, impl Fn, Box<dyn>, slice, tuple, where-predicates naming 'static / for<> before a fn lifetime or a fn lifetime inside the arguments of a trait bound, outlives-related lifetimes, "
             "destructuring / mut / wildcard patterns, `&mut`} x container {single fn, one of two fns of a module, next to a twin fn with the same generic parameter names, macro_rules-stamped with the dependency type as a `$d:ty` fragment} x qualifiers {none, async, unsafe, extern \"C\", unsafe extern \"C\", async unsafe} x 11 return kinds (unit, owned, borrowed from deps elided / named, "
             "borrowed from an argument named / elided / elided next to a named parameter lifetime, generic T, Result, Option<&'a>, impl Trait) x options {none, mock_api, mockall, ?Send} x both features (~23k states "
             "in quick). Each state is compiled to a fixpoint (every rustc error attributed to its state, borrowck included) and run; for sync fns the function "
             "and the trait method must both coerce to the one most-general fn-pointer type written by the generator (higher-ranked lifetimes, unsafe / extern "
             "qualifiers), for async fns the Output is ascribed; scope witnesses check that a return borrowed from deps does not depend on the arguments and "
             "vice versa; the direct and the trait call must return the model's value. 10 further programs: type / const parameters that only the body uses, declared const-before-type, or in different orders by the fns of a module; nested and named-lifetime elision under `no_deps`; a `&'static` reference to a concrete dependency; receiver identity for a mockable trait with a named dependency parameter.",
        note=NOTE, technique="bounded-exhaustive enumeration of signatures on the real macro; fixpoint compilation + fn-pointer coercion witnesses + executed client",
        ref="DESIGN.md §3 C03"),
    "C04": dict(
        text="All 8 subsets S of three bounds (two of them instantiations of one generic trait) x sync / async / async ?Send x 7 declaration forms (inline, where, impl A+B, split, duplicated, and `?Sized` next to the bounds inline / in impl) x receiver by ref/by value "
             "x 9 mock settings (none, mockall, mockall=false, mock_api only, mock_api+unimock, unimock=false, unimock=false+mockall, mock_api+mockall=false, unimock+export without mock_api) x both crate features for single fns, and "
             "all 64 pairs (S1,S2) x receiver combinations x mock settings for two-fn modules (three-fn modules in thorough). Per state 48 runtime "
             "availability probes `implements!(X: Tr)` / `implements!(Impl<X>: Tr)` over probe types implementing exactly each subset in three auto-trait "
             "flavours (everything / Sync-only / Send-only) must equal the model's iff; a second naming scheme (two different traits whose paths end in the same segment) and modules whose fns carry an enabled or a disabled `#[cfg]` are enumerated too; plus a negative compile probe for 'static per declaration form.",
        note=NOTE + " 'static is decided by a negative compile probe on one witness type (lifetimes are invisible to runtime probes). One open known finding "
             "(bounds of a #[cfg]-disabled module fn are still required) is listed in known_findings.json.",
        technique="exhaustive enumeration of bound-declaration programs on the real macro; runtime trait-availability truth table vs iff model",
        ref="DESIGN.md §3 C04"),
    "C05": dict(
        text="8 concrete dependency type shapes (ident, path, generic instantiation, tuple, array, reference with explicit lifetime, lifetime-parameterised type elided / named by a fn lifetime) plus macro_rules-stamped "
             "fns whose concrete type is an `ident` / a `ty`-fragment macro argument x sync/async x ?Send with a genuinely non-Send body x owned/borrowed return x every argument word <= 2 "
             "(quick) / <= 3 (thorough) over {i64, &str, generic T}: the client "
             "calls the function directly, through the trait on C, through <Impl<C> as Tr> and through <Impl<App> as Tr> with a hand-written `impl Tr for App` "
             "(the README 'case 1' hop); each must produce exactly one event with the right C as dependency (address), arguments in order and the model's "
             "result; 9 runtime availability probes (C, Impl<C>, App, Impl<App>, Sync-only app, !Sync app, unrelated type, Impl<Impl<App>>) must match.",
        note=NOTE + " One open known finding (a concrete type naming a lifetime parameter of the fn) is listed in known_findings.json.",
        technique="exhaustive enumeration of concrete-dependency programs on the real macro; executed trace + availability probes vs model",
        ref="DESIGN.md §3 C05"),
    "C06": dict(
        text="Every method word of length <= 2 (quick) / <= 3 (thorough) over 22 method shapes (provided methods incl. `where Self: Sized` and pattern parameters, macro_rules-stamped hygiene shapes incl. a macro-named method, unsafe / extern methods, the typed receiver `self: &Self`, const-before-type method generics, a method type parameter that no argument mentions, 0-2 arguments incl. same-typed adjacent ones, &str, borrowed "
             "returns from arguments and from self, trait-generic and method-generic parameters, four async shapes) x selector {default, Self, ref, Borrow} x "
             "{non-generic, generic, bound+default generic, const-before-type generic} trait x supertrait/where clause x {native async, async_trait} is compiled and run against a tracing provider: one event per call, on "
             "the provider reached through the selected route (address), arguments in order, result unchanged; and `Impl<X>: Trait` is probed at run time "
             "for a family of X (no provider, provider by Self / AsRef / Borrow, Sync-only and !Sync flavours) and must be true exactly for the selected route.",
        note=NOTE + " Traits that are not dyn-compatible are pruned for ref/Borrow; dyn delegation of a generic trait is exercised with `G: 'static`.",
        technique="bounded-exhaustive enumeration of trait definitions on the real macro; executed trace + runtime availability truth table vs model",
        ref="DESIGN.md §3 C06"),
    "C07": dict(
        text="Every method word of length <= 2 (quick) / <= 3 (thorough) over 17 shapes (0-2 same-typed arguments, &str, named lifetimes with and without "
             "the lifetime on the receiver, return borrowed from deps (plain and with a nested elided lifetime), typed receiver `self: &Self`, provided method with Self: Sized, macro_rules-stamped hygiene shape, five async shapes incl. one without return value) x {static `delegate_by = Sel`, dynamic `delegate_by = ref` "
             "(+ async_trait when async)} x 9 assignments of further dependency bounds to the block's fns (0/1/2 bounds, increasing, decreasing, disjoint, two instantiations of one generic trait, two different traits with the same last path segment), "
             "with two competing target types X1/X2 of identical method names selected by AppA/AppB: every call must produce exactly one event, from the "
             "selected target's function of that name, whose deps argument is the caller's &Impl<App> (address + type), arguments in order, result unchanged; "
             "the block's functions call further (non-blanket) dependencies through deps. One-method words are repeated with the dynamic impl block spelled `#[entrait(dyn)]` / `#[entrait(ref dyn)]`, short words with the impl blocks stamped out by macro_rules (target type as `$t:ty` fragment) next to decoy free functions named like the methods.",
        note=NOTE, technique="bounded-exhaustive enumeration of delegated traits + impl blocks on the real macro; executed trace vs model",
        ref="DESIGN.md §3 C07"),
    "C08": dict(
        text="Every module item word up to the bound (full 31-symbol alphabet: every visibility and every const/async/unsafe/extern "
             "qualifier combination on visible and private fns, structs+impls, nested mods, extern blocks, macro_rules, body-less "
             "declarations, consts with blocks, uses, statics, traits; longer words over a 14-symbol core alphabet) x requested trait "
             "visibility (none, pub, pub(crate), pub(in path)), plus macro_rules-stamped modules (block / expr / ty / vis / ident / item fragments, item fragments ending in `;`, nested fragments, same-named cfg alternatives); the alphabet includes `const` and bare-`extern` fns, which are compiled and called too and exporting invocations on the short words, is expanded by the real macro; the method list of the generated trait must equal the model's filter "
             "(visible fn with a body, source order) and, where the word can compile, a client in the parent scope and at crate level "
             "calls every expected method through the re-export.",
        note=NOTE, technique="bounded-exhaustive enumeration of module bodies; structural view of recorded expansion + executed client vs filter model",
        ref="DESIGN.md §3 C08"),
    "C09": dict(
        text="The default trait plus every combination of <= 2 (quick) / <= 3 (thorough) deviations over 15 dimensions (attributes above / below entrait, "
             "visibility, unsafe, generics incl. lifetimes / defaults / const, supertraits, where clause, method attributes, parameter attributes, default body, associated "
             "types, parameter patterns, async (native / async_trait), a second method incl. generic and lifetime-carrying ones, 10 option sets incl. delegation targets with their own visibility) is "
             "expanded, compiled and run. The emitted trait is diffed field by field (syn) against the trait the macro received - only the documented async "
             "rewrite and macro-owned attributes may differ - and a client that implements the trait relying on default bodies / associated types / "
             "supertraits must compile and compute the values the trait as written gives. The quick tier adds the three-way interactions method attribute x default body x {async, "
             "every option set}.",
        note=NOTE + " Two open known findings (associated types cannot be forwarded through a trait object or a delegation target trait: rejected with a diagnostic) are listed in known_findings.json.",
        technique="deviation-bounded exhaustive enumeration of trait definitions on the real macro; structural identity model + executed client",
        ref="DESIGN.md §3 C09"),
    "C10": dict(
        text="The complete 3024-point lattice {macro name} x {crate feature} x unimock{absent,true,false} x mock_api x mockall{absent,true,false} "
             "x export{absent,true,false} x {fn, fn with concrete deps, mod, trait} x requested visibility {pub, pub(crate)} x {cfg(test), not(test)} is enumerated without pruning; per point the attributes on the "
             "emitted trait (none / cfg_attr(test,..)-gated / ungated) and, in the compiled crate, the existence of the unimock API / "
             "`Unimock: Trait` / the mockall struct (runtime booleans from probe code, in a --cfg test and a plain build) must equal the decision table.",
        note=NOTE + " unimock 0.6.8 / mockall 0.12.1 derives as shipped.",
        technique="exhaustive enumeration of a finite configuration lattice on the real macro, decision-table model",
        ref="DESIGN.md §3 C10"),
    "C11": dict(
        text="(unimock feature on, --cfg test) Every argument word <= 2 (quick) / <= 3 (thorough) over {i64, &str, destructured tuple} x deps {&impl, &D, "
             "no_deps, concrete} x sync/async for single fns, modules of three same-signature fns declared in non-alphabetical order, entraited traits with "
             "three same-signature methods, macro_rules-stamped fns whose parameters differ only in hygiene, a `#[cfg]`-attributed module fn, and the same wiring spelled through "
             "entrait_export / explicit export / export=false / mockall, and on `unsafe fn` / `?Send` invocations and with a parameter named like the fn, and four programs with type parameters of their own (partial-mock path only): the mock API must resolve under exactly the "
             "mock_api name; a clause matching the position-coded arguments answers the call and a clause with permuted arguments does not; on "
             "Unimock::new_partial(()) the ORIGINAL function must run once with the Unimock instance as deps (address + type name), same arguments, same "
             "result as the Impl<T> path; concrete-deps fns and entraited traits must panic with 'cannot be unmocked'.",
        note=NOTE + " unimock 0.6.8 as shipped.",
        technique="bounded-exhaustive enumeration of mockable programs on the real macro + real unimock; executed trace vs model",
        ref="DESIGN.md §3 C11"),
    "C12": dict(
        text="7 input modes (fn, fn with a concrete dependency, mod, entraited trait, trait + static impl block, leaf trait by ref, trait + dyn impl block) x 5 return kinds (unit, owned, "
             "borrowed from deps, borrowed from an argument with a named lifetime, generic) x {default, ?Send} x {native, async_trait, async_trait named through a re-export} x {clean body, body "
             "holding an Rc across an await} x {all async, sync companion method} x {required, provided (default-bodied) async method}: every state is compiled; the Output type is ascribed (`output_is::<R,_>`), declared Send-ness is read as a "
             "runtime boolean in a generic context `fn p<D: Tr>(d: &D)`, the future is driven to completion and its value compared; non-Send bodies must "
             "compile under ?Send and be rejected ('cannot be sent between threads') by default; under async_trait the async fn must be kept and the "
             "attribute re-applied to every generated trait and trait impl (structural view).",
        note=NOTE,
        technique="exhaustive enumeration of async programs on the real macro; compile-time witnesses, runtime Send probe, negative compile probes, structural view",
        ref="DESIGN.md §3 C12"),
    "C13": dict(
        text="Every (input mode, requested visibility, item visibility) program - fn: 10 requested (incl. pub(self), pub(in self), pub(in super), pub(in super::super), pub(in super::super::super), pub(in crate::path)) x 3 fn visibilities, and exporting variants; mod: 9 requested (incl. pub(self), pub(super), pub(in self), pub(in super), pub(in super::super)) x module visibility "
             "x fn visibility, through the re-export and through the module; trait: 5 trait visibilities x static/ref delegation target x attribute-side "
             "visibility, for the delegation target trait and for the selector trait - x 5 probe scopes (defining scope, parent, grandparent, crate root, a second crate). One probe per unit: it must compile exactly "
             "where Rust's visibility lattice allows it and be rejected with a privacy error elsewhere; the visibility tokens of the emitted trait and "
             "re-export are compared too.",
        note=NOTE, technique="exhaustive enumeration of (program x probe scope) on the real macro; positive and negative compile probes vs visibility-lattice model",
        ref="DESIGN.md §3 C13"),
    "C14": dict(
        text="Bottom-level input mode {fn, mod, entraited trait, trait + static impl block} x sync/async x call-chain depth 1..3 (1..5 thorough) x arity "
             "0..2 x {elided, named lifetime, two lifetimes with an outlives bound, generic async method, provided method mentioning its own name, method taking `self` by value, mockall + return-position `impl Trait`, `&mut` parameters, explicit `delegate_by = Self`, provided async method awaiting a sibling, outlives relation in a where clause, `no_deps` + `impl Trait` return}: level i of the chain allocates exactly i boxes, the client counts heap allocations "
             "(counting global allocator, allocation-free executor) around the direct call and around the call through the generated trait; both must "
             "equal d(d+1)/2 and give the same result; the generated part of every recorded expansion must not mention dyn / Box / Pin / async_trait.",
        note=NOTE + " Debug build: Box::new allocates exactly once.",
        technique="exhaustive enumeration of statically delegating call chains on the real macro; allocation counter + token scan vs arithmetic model",
        ref="DESIGN.md §3 C14"),
    "C15": dict(
        text="(i) every attribute-argument token word up to length 3 (quick) / 4 (thorough) over a 23-token alphabet (option names, values, "
             "punctuation, keywords, literals, a parenthesised group) on fn, mod, trait and impl items (~50k invocations in quick); (ii) 62 documented-misuse "
             "and unsupported-item cases x both macro names, each in its own compiler process; (iii) every trait-method parameter-pattern word "
             "<= 2 over 10 patterns x {declaration, default body} x 6 delegation kinds (x receiver {&self, none, self, &mut self} on words <= 1); (iii-b) every ordered selection of <= 2 (3) of 11 well-formed options x 4 item kinds x 2 macro names, and 10 spellings of the requested visibility on fn / mod items; (iv) fn-signature pattern words x 4 contexts x {f, r#type}; (v) every sequence <= 2 (3) of 10 item shapes (where "
             "clauses with / without trailing comma, lifetime-only dependency bounds, HRTB predicates, async, body-less declarations with and without visibility) inside one module / impl block. For every invocation: no panic record and no `custom attribute "
             "panicked`, the recorded output parses as Rust items, a rejection is reported by rustc inside the invocation's own lines; documented misuses "
             "give their specific message on the line of the offending tokens.",
        note=NOTE, technique="bounded-exhaustive enumeration of attribute token words / item kinds / pattern words through the real macro; diagnostic-channel oracle",
        ref="DESIGN.md §3 C15"),
    "C16": dict(
        text="Every pattern word up to length 3 (quick) / 4 (thorough) over a 19-symbol pattern alphabet (plain, mut, ref, raw identifier, wildcard, "
             "tuple, tuple-struct with 1 binding, with binding+wildcard, struct pattern, reference pattern, binding named like the function, bindings "
             "named like would-be generated names argN/_argN/f_, destructuring whose binding is the function name / starts with an underscore, the function's name / a would-be generated name argN / the conflict-avoiding name f_ in the other raw-or-plain spelling) x {generic deps, no_deps, module fn, "
             "impl-block fn, provided method of an entraited trait (default delegation / static delegation target), required method of an entraited trait (identifiers and `_` only), macro_rules-stamped fn with the trait name as macro argument} x fn name {f, r#type, r#g, arg1} is compiled and run; the generated method's parameter list must satisfy the naming specification and "
             "the trait call must forward position-coded arguments positionally.",
        note=NOTE, technique="bounded-exhaustive enumeration of pattern lists on the real macro; specification model + executed trace",
        ref="DESIGN.md §3 C16"),
    "C17": dict(
        text="State graph whose nodes are option sets and whose edges append one option: every ordered selection of the six fn/mod options "
             "and the five trait options with the delegation option in each of its spellings `= ref`, `= Self` (the table default: must equal omitting it) and the bare word (undocumented: only has to be treated alike in every position) (every path into every node), plus all 4^4 value-form combinations {absent,bare,=true,=false} of the "
             "boolean options x mock_api x ?Send, the `debug` option in every form and position on five base invocations, the three spellings of the dynamic impl-block kind (`ref`, `dyn`, `ref dyn`), under both macro names and both crate features, on fn / concrete-deps fn / parameterless fn / mod / trait / impl items (~13k invocations). "
             "Invocations with the same semantic key (derived from the statement and the option table's defaults only) must expand to identical token trees - for concrete-deps fns whose "
             "arguments set `unimock` explicitly the nested expansion on the generated trait is compared as well; options outside "
             "their documented target must be rejected, documented ones accepted.",
        note=NOTE, technique="exhaustive path enumeration of the option state graph, metamorphic token-equality oracle on the real macro",
        ref="DESIGN.md §3 C17"),
    "C18": dict(
        text="Every placement word of <= 2 (quick) / <= 3 (thorough) (site, attribute) pairs per input mode - sites: above / below entrait, on a plain / "
             "destructured / wildcard parameter, on concrete-deps fns, on the module, on a module fn, on the trait, on a trait method (required, async provided, provided with a delegation-target trait), on an `unsafe` module fn, on the impl block, on an impl-block fn; "
             "attributes: doc, allow, inline, must_use, cfg(all()), cfg(any()) (with a body and return type that cannot compile), an identity proc-macro, "
             "a counting proc-macro and the counting macro wrapped in cfg_attr - is compiled and run. Generated traits/impls/methods may carry nothing from the user except mirrored cfg "
             "(mod / impl-block fns) or all method attributes (entraited traits); generated signatures carry no parameter attributes; programs with "
             "cfg(any()) members compile and the remaining methods work; the counting macro sees each function exactly once per compiler process.",
        note=NOTE, technique="bounded-exhaustive enumeration of attribute placements on the real macro; structural view + executed client + helper-macro invocation log",
        ref="DESIGN.md §3 C18"),
    "C19": dict(
        text="31 programs (every input mode x delegation kind, sync and async, ?Send, by-value, concrete, no_deps, static/dyn/Borrow targets, delegation-target traits carrying the hostile name, provided methods using `self`, methods named like the helpers the delegation goes through, a supertrait with a same-named method, by-value methods, five mock-deriving programs compiled with the unimock feature and --cfg test, async_trait), all invoked by "
             "absolute path with no imports, x {empty scope, each of 25 local decoy items alone (real imports of Borrow / Deref / IntoFuture / Any / ToOwned .., a blanket extension trait with methods `as_ref` / `borrow` / `into_inner` / `deref` / `clone`, traits Send/Sync/Sized/Future/AsRef/Borrow/Unpin, structs "
             "Impl/Box/Pin, modules core/entrait/std/alloc/future/marker/convert/borrow, value-namespace unit structs and consts), all decoys together, the "
             "trait itself named Send/Sync/Sized/Future/AsRef/Impl/Box/Unpin, six macro_rules hygiene splits (whole program in a macro body; trait names / every fn, parameter and module "
             "name as macro arguments; both; attribute in the body and item passed in; the reverse)}: each state is compiled and run and must give the model's values and the same "
             "observations as in the empty scope; one #![no_std] lib crate holds every mode; one lib crate whose only dependency is entrait (unimock feature on, test and non-test build) holds every mock-deriving mode; every path of the generated part of every recorded expansion "
             "must be rooted at ::entrait/::core, a macro-introduced generic/receiver, or be copied from the input.",
        note=NOTE + " Decoys named Box/Pin are not applied to programs that go through the third-party async_trait macro (its own expansion is not hygienic).",
        technique="exhaustive enumeration of (program x hostile scope) on the real macro; differential + model oracle, structural path-root scan",
        ref="DESIGN.md §3 C19"),
    "C20": dict(
        text="Every sequence with repetition over 18 representative invocations up to length 3 (quick) / 4 + all 720 permutations of six (thorough) "
             "is expanded inside one compiler process per history; each invocation's recorded (attr, input, output) at every position must equal "
             "the record of the same invocation expanded alone. The corpus is also expanded under 8 environments (incl. the variables build tools / CI / docs.rs set) x {alone, 16 concurrent processes}. "
             "Hash-seed independence is only sampled (R fresh processes) and reported as such.",
        note=NOTE + " std RandomState seeds are not controlled (sampled, outside the exhaustive claim).",
        technique="exhaustive enumeration of invocation histories per compiler process, differential oracle (alone vs in-history)",
        ref="DESIGN.md §3 C20"),
}

NOT_APPLICABLE = {}
