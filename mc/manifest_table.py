"""Per-property manifest entries."""
NOTE = ("Trusted: rustc 1.95 (expansion, name resolution, trait selection, borrowck, codegen) and its JSON diagnostics; "
        "syn 2 for structural views; the generated scaffolding (its direct-call side is compiled too, a scaffold bug is exit 2). "
        "Exhaustive only within the stated alphabet and bound.")

CHECKS = {
    "C01": dict(
        text="Every parameter word up to the bound over an 8-symbol parameter alphabet, crossed with 7 dependency forms, sync/async, "
             "single fn / 3 same-signature sibling fns in a module, mockable or not, both crate features, is compiled with the real "
             "macro and executed; the trait call's trace (function id, receiver address+type, position-coded arguments), result and "
             "&mut effects must equal the model's prediction and the direct call's. Exhaustive enumeration, no sampling.",
        note=NOTE, technique="bounded-exhaustive explicit-state enumeration of programs, executed on the real macro, compared with a reference model",
        ref="DESIGN.md §3 C01"),
    "C02": dict(
        text="fn: the default function plus every combination of <=2 (quick) / <=3 (thorough) deviations over 8 syntactic dimensions "
             "(attributes above/below, visibility, qualifiers, generics/where, parameter attributes/trailing comma, return type, 10 body "
             "token soups); mod: every item word up to the bound over an 18-symbol item alphabet; impl: every item word over 6 symbols x "
             "{static, ref}. Each state is expanded by the real macro; the recorded input token tree must be a prefix of the output (fn), "
             "of the module body followed only by the generated trait+impl and the re-export (mod), or equal to the inherent impl's body (impl).",
        note=NOTE, technique="bounded-exhaustive enumeration of programs; token-tree comparison of recorded macro input vs output (identity model)",
        ref="DESIGN.md §3 C02"),
}

NOT_APPLICABLE = {}
