"""Per-property manifest entries."""
NOTE = ("Trusted: rustc 1.95 (expansion, name resolution, trait selection, borrowck, codegen) and its JSON diagnostics; "
        "syn 2 for structural views; the generated scaffolding (its direct-call side is compiled too, a scaffold bug is exit 2). "
        "Exhaustive only within the stated alphabet and bound.")

CHECKS = {
    "C01": dict(
        text="Every parameter word up to the bound over an 8-symbol parameter alphabet, crossed with 7 dependency forms, sync/async, "
             "single fn / 3 same-signature sibling fns in a module, mockable or not, both crate features, is compiled with the real "
             "macro and executed; the trait call's trace (function id, receiver address+type, position-coded arguments), result and "
             "&mut effects must equal the model's prediction and the direct call's. Exhaustive enumeration, no sampling.",
        note=NOTE, technique="bounded-exhaustive explicit-state enumeration of programs, executed on the real macro, compared with a reference model",
        ref="DESIGN.md §3 C01"),
}

NOT_APPLICABLE = {}
