"""Shared pieces of the program generators."""

# Parameter kinds: symbol -> (pattern template, type, argument expression template, how the body
# reports the value).  `{i}` is the parameter position; argument values are position coded (10+i)
# so that any swap / drop / duplication of same-typed parameters changes trace and result.
PARAM_KINDS = {
    "i": dict(pat="x{i}", ty="i64", arg="{v}", show=["x{i}"], desc="x: i64"),
    "r": dict(pat="x{i}", ty="&i64", arg="&{v}", show=["*x{i}"], desc="x: &i64"),
    "m": dict(pat="x{i}", ty="&mut i64", arg="&mut m{i}", show=["*x{i}"], desc="x: &mut i64", mut=True),
    "s": dict(pat="x{i}", ty="String", arg="format!(\"s{v}\")", show=["x{i}"], desc="x: String (moved)"),
    "t": dict(pat="x{i}", ty="&str", arg="\"t{v}\"", show=["x{i}"], desc="x: &str"),
    "u": dict(pat="(x{i}, y{i})", ty="(i64, i64)", arg="({v}, {w})", show=["x{i}", "y{i}"], desc="(x, y): (i64, i64)"),
    "n": dict(pat="N(x{i})", ty="N", arg="N({v})", show=["x{i}"], desc="N(x): N"),
    "w": dict(pat="_", ty="i64", arg="{v}", show=[], desc="_: i64"),
}


def param_decl(kind, i):
    k = PARAM_KINDS[kind]
    return "%s: %s" % (k["pat"].format(i=i), k["ty"])


def param_arg(kind, i):
    k = PARAM_KINDS[kind]
    return k["arg"].format(i=i, v=10 + i, w=50 + i)


def param_show_exprs(kind, i):
    return [e.format(i=i) for e in PARAM_KINDS[kind]["show"]]


def param_expected(kind, i):
    """What the body's report of this parameter looks like (Display of each shown expr)."""
    v, w = 10 + i, 50 + i
    return {
        "i": [str(v)], "r": [str(v)], "m": [str(v)], "s": ["s%d" % v], "t": ["t%d" % v],
        "u": [str(v), str(w)], "n": [str(v)], "w": [],
    }[kind]


def fmt_call(prefix, exprs):
    """Rust expression formatting `prefix|e1|e2..` with Display."""
    if not exprs:
        return 'format!("%s")' % prefix
    return 'format!("%s%s", %s)' % (prefix, "|{}" * len(exprs), ", ".join(exprs))


# ---------------------------------------------------------------------------------------------
# Module item alphabet (C02 mod mode, C08).  `{n}` = position in the module (unique names),
# `{key}` = name of the enclosing state module.  member=True: the item is a function the
# generated trait must contain (name `a{n}`).
# ---------------------------------------------------------------------------------------------
ANY = "&impl ::core::any::Any"
MOD_ITEMS = {
    # visible functions: every visibility qualifier / every fn qualifier
    "pub":      dict(src="pub fn a{n}(deps: %s) -> u32 {{ {n} }}" % ANY, member=True, call="sync"),
    "crate":    dict(src="pub(crate) fn a{n}(deps: %s) -> u32 {{ {n} }}" % ANY, member=True, call="sync"),
    "super":    dict(src="pub(super) fn a{n}(deps: %s) -> u32 {{ {n} }}" % ANY, member=True, call="sync"),
    "in":       dict(src="pub(in crate::{key}) fn a{n}(deps: %s) -> u32 {{ {n} }}" % ANY, member=True, call="sync"),
    "async":    dict(src="pub async fn a{n}(deps: %s) -> u32 {{ {n} }}" % ANY, member=True, call="async"),
    "unsafe":   dict(src="pub unsafe fn a{n}(deps: %s) -> u32 {{ {n} }}" % ANY, member=True, call="unsafe"),
    "extern":   dict(src="pub extern \"C\" fn a{n}(deps: %s) -> u32 {{ {n} }}" % ANY, member=True, call="sync"),
    "attrpub": dict(src="#[inline] /** doc */ pub fn a{n}(deps: %s) -> u32 {{ {n} }}" % ANY, member=True, call="sync"),
    "asyncunsafe": dict(src="pub(crate) async unsafe fn a{n}(deps: %s) -> u32 {{ {n} }}" % ANY, member=True, call="asyncunsafe"),
    # `extern` without an ABI string (the C ABI implied)
    "externbare": dict(src="pub extern fn a{n}(deps: %s) -> u32 {{ {n} }}" % ANY, member=True, call="sync"),
    "unsafeexternbare": dict(src="pub(crate) unsafe extern fn a{n}(deps: %s) -> u32 {{ {n} }}" % ANY, member=True, call="unsafe"),
    "unsafeextern": dict(src="pub unsafe extern \"C\" fn a{n}(deps: %s) -> u32 {{ {n} }}" % ANY, member=True, call="unsafe"),
    "asyncextern": dict(src="pub async extern \"C\" fn a{n}(deps: %s) -> u32 {{ {n} }}" % ANY, member=True, call=None, compiles=False),
    "asyncunsafeextern": dict(src="pub async unsafe extern \"C\" fn a{n}(deps: %s) -> u32 {{ {n} }}" % ANY, member=True, call=None, compiles=False),
    "constunsafe": dict(src="pub const unsafe fn a{n}(deps: %s) -> u32 {{ {n} }}" % ANY, member=True, call="unsafe"),
    "constextern": dict(src="pub const extern \"C\" fn a{n}(deps: %s) -> u32 {{ {n} }}" % ANY, member=True, call="sync"),
    "constunsafeextern": dict(src="pub(crate) const unsafe extern \"C\" fn a{n}(deps: %s) -> u32 {{ {n} }}" % ANY, member=True, call="unsafe"),
    "const":    dict(src="pub const fn a{n}(deps: %s) -> u32 {{ {n} }}" % ANY, member=True, call="sync"),   # (the trait METHOD is not const)
    # things that must NOT become trait methods
    "priv":     dict(src="fn p{n}(deps: %s) -> u32 {{ {n} }}" % ANY, member=False),
    "pasync":  dict(src="async fn p{n}(deps: %s) -> u32 {{ {n} }}" % ANY, member=False),
    "punsafe": dict(src="unsafe fn p{n}(deps: %s) -> u32 {{ {n} }}" % ANY, member=False),
    "pextern": dict(src="extern \"C\" fn p{n}(deps: %s) -> u32 {{ {n} }}" % ANY, member=False),
    "pconst":  dict(src="const fn p{n}(deps: %s) -> u32 {{ {n} }}" % ANY, member=False),
    "struct":   dict(src="pub struct S{n} {{ pub f: u8 }}\n    impl S{n} {{ pub fn g{n}(&self) -> u32 {{ 0 }} pub(crate) fn h{n}() {{}} }}", member=False),
    # items whose *header* contains `=` before the brace body (defaulted generics, associated-type bindings)
    "structdef": dict(src="pub struct D{n}<T = u32> {{ pub t: T }}\n    impl<I: ::core::iter::Iterator<Item = u8>> ::core::convert::From<I> for D{n}<u8> {{ fn from(mut i: I) -> Self {{ D{n} {{ t: i.next().unwrap_or(0) }} }} }}", member=False),
    "mod":      dict(src="pub mod inner{n} {{ pub fn nested{n}(deps: %s) -> u32 {{ 0 }} }}" % ANY, member=False),
    "foreign":  dict(src="extern \"C\" {{ pub fn ext{n}(x: i32) -> i32; }}", member=False),
    "macro":    dict(src="macro_rules! mr{n} {{ () => {{ pub fn generated{n}(deps: &()) {{}} }}; (;) => {{ ; }}; }}", member=False),
    "bodyless": dict(src="pub fn decl{n}(deps: %s) -> u32;" % ANY, member=False, compiles=False),
    "constblk": dict(src="pub const K{n}: fn() -> u32 = {{ pub fn inner() -> u32 {{ 1 }} inner }};", member=False),
    "use":      dict(src="pub use ::core::{{any as any{n}, fmt as fmt{n}}};", member=False),
    "static":   dict(src="pub static ST{n}: u8 = {{ 1 }} + {{ 2 }};", member=False),
    "trait":    dict(src="pub trait Tt{n} {{ fn tf{n}(&self) -> u32 {{ 0 }} fn tg{n}(&self); }}", member=False),
}
MOD_ITEM_ORDER = ["pub", "priv", "crate", "struct", "super", "async", "mod", "unsafe", "foreign", "in", "macro",
                  "extern", "bodyless", "constblk", "use", "static", "trait", "const",
                  "pasync", "attrpub", "punsafe", "asyncunsafe", "pextern", "pconst",
                  "unsafeextern", "asyncextern", "asyncunsafeextern", "constunsafe", "constextern", "constunsafeextern", "structdef", "externbare", "unsafeexternbare"]
# interplay alphabet for the longest words (one representative per item class)
MOD_ITEM_CORE = ["pub", "priv", "crate", "struct", "async", "mod", "unsafe", "foreign", "macro", "bodyless", "constblk",
                 "use", "static", "trait", "structdef"]


def mod_item_src(sym, n, key):
    return MOD_ITEMS[sym]["src"].format(n=n, key=key)
