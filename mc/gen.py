"""Shared pieces of the program generators."""

# Parameter kinds: symbol -> (pattern template, type, argument expression template, how the body
# reports the value).  `{i}` is the parameter position; argument values are position coded (10+i)
# so that any swap / drop / duplication of same-typed parameters changes trace and result.
PARAM_KINDS = {
    "i": dict(pat="x{i}", ty="i64", arg="{v}", show=["x{i}"], desc="x: i64"),
    "r": dict(pat="x{i}", ty="&i64", arg="&{v}", show=["*x{i}"], desc="x: &i64"),
    "m": dict(pat="x{i}", ty="&mut i64", arg="&mut m{i}", show=["*x{i}"], desc="x: &mut i64", mut=True),
    "s": dict(pat="x{i}", ty="String", arg="format!(\"s{v}\")", show=["x{i}"], desc="x: String (moved)"),
    "t": dict(pat="x{i}", ty="&str", arg="\"t{v}\"", show=["x{i}"], desc="x: &str"),
    "u": dict(pat="(x{i}, y{i})", ty="(i64, i64)", arg="({v}, {w})", show=["x{i}", "y{i}"], desc="(x, y): (i64, i64)"),
    "n": dict(pat="N(x{i})", ty="N", arg="N({v})", show=["x{i}"], desc="N(x): N"),
    "w": dict(pat="_", ty="i64", arg="{v}", show=[], desc="_: i64"),
}


def param_decl(kind, i):
    k = PARAM_KINDS[kind]
    return "%s: %s" % (k["pat"].format(i=i), k["ty"])


def param_arg(kind, i):
    k = PARAM_KINDS[kind]
    return k["arg"].format(i=i, v=10 + i, w=50 + i)


def param_show_exprs(kind, i):
    return [e.format(i=i) for e in PARAM_KINDS[kind]["show"]]


def param_expected(kind, i):
    """What the body's report of this parameter looks like (Display of each shown expr)."""
    v, w = 10 + i, 50 + i
    return {
        "i": [str(v)], "r": [str(v)], "m": [str(v)], "s": ["s%d" % v], "t": ["t%d" % v],
        "u": [str(v), str(w)], "n": [str(v)], "w": [],
    }[kind]


def fmt_call(prefix, exprs):
    """Rust expression formatting `prefix|e1|e2..` with Display."""
    if not exprs:
        return 'format!("%s")' % prefix
    return 'format!("%s%s", %s)' % (prefix, "|{}" * len(exprs), ", ".join(exprs))
