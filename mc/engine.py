"""Engine of the entrait model checker.

Pipeline: enumerate canonical states (per-property module) -> render every state as Rust source ->
expand/compile with the real `entrait_macros` built from /repo's working tree (direct rustc, batched
into shards) -> run -> attribute rustc diagnostics, recorder records and runtime observations to
states -> compare each state's observation with the reference model.

Exit codes (used by ./check): 0 held, 1 violation, 2 machinery failure.
"""
import concurrent.futures
import json
import os
import re
import shutil
import subprocess
import sys
import tempfile
import time

VERIF = os.path.dirname(os.path.dirname(os.path.abspath(__file__)))
REPO = "/repo"
CACHE = os.path.join(VERIF, ".cache")
GUARD = "audunhalland_entrait_verif"
JOBS = int(os.environ.get("VERIF_JOBS", "16"))
RT_SRC = open(os.path.join(VERIF, "mc", "rt.rs")).read()


class MachineryError(Exception):
    pass


def log(*a):
    print(*a, file=sys.stderr, flush=True)


# ---------------------------------------------------------------------------------------------
# building the subject (entrait from /repo, hooks on) and the tokview helper
# ---------------------------------------------------------------------------------------------

_artifacts = {}


class Artifacts:
    def __init__(self, feature):
        self.feature = feature
        self.externs = {}
        self.deps_dir = None


def _cargo_env():
    env = dict(os.environ)
    env["CARGO_NET_OFFLINE"] = "true"
    env["CARGO_TARGET_DIR"] = os.path.join(CACHE, "subject")
    env["RUSTFLAGS"] = "--cfg " + GUARD
    env.pop("ENTRAIT_VERIF_DUMP", None)
    return env


def build_subject(feature):
    """cargo-build /verif/subject against /repo's current working tree. feature: bool (unimock)."""
    if feature in _artifacts:
        return _artifacts[feature]
    cmd = ["cargo", "build", "--offline", "--message-format=json", "--quiet"]
    if feature:
        cmd += ["--features", "unimock"]
    t0 = time.time()
    p = subprocess.run(cmd, cwd=os.path.join(VERIF, "subject"), env=_cargo_env(),
                       stdout=subprocess.PIPE, stderr=subprocess.PIPE, text=True)
    art = Artifacts(feature)
    errors = []
    for line in p.stdout.splitlines():
        try:
            m = json.loads(line)
        except ValueError:
            continue
        if m.get("reason") == "compiler-artifact":
            name = m["target"]["name"]
            files = m["filenames"]
            pick = [f for f in files if f.endswith(".rlib") or f.endswith(".so")]
            if pick and name in ("entrait", "unimock", "mockall", "async_trait", "entrait_macros", "implementation"):
                art.externs[name] = pick[0]
                art.deps_dir = os.path.dirname(pick[0])
        elif m.get("reason") == "compiler-message" and m["message"].get("level") == "error":
            errors.append(m["message"].get("rendered", ""))
    if p.returncode != 0 or "entrait" not in art.externs:
        raise MachineryError("subject build failed (does /repo compile with --cfg %s?):\n%s\n%s"
                             % (GUARD, "\n".join(errors), p.stderr[-3000:]))
    log("[engine] subject built (unimock feature %s) in %.1fs" % ("on" if feature else "off", time.time() - t0))
    _artifacts[feature] = art
    return art


def build_tokview():
    exe = os.path.join(CACHE, "tokview", "release", "tokview")
    env = dict(os.environ)
    env["CARGO_NET_OFFLINE"] = "true"
    env["CARGO_TARGET_DIR"] = os.path.join(CACHE, "tokview")
    env.pop("RUSTFLAGS", None)
    p = subprocess.run(["cargo", "build", "--release", "--offline", "--quiet"],
                       cwd=os.path.join(VERIF, "tokview"), env=env,
                       stdout=subprocess.PIPE, stderr=subprocess.PIPE, text=True)
    if p.returncode != 0 or not os.path.exists(exe):
        raise MachineryError("tokview build failed:\n" + p.stderr[-3000:])
    return exe


def build_helper_macros():
    """Tiny proc-macro crate with foreign attributes used as alphabet symbols (identity / counting)."""
    env = dict(os.environ)
    env["CARGO_NET_OFFLINE"] = "true"
    env["CARGO_TARGET_DIR"] = os.path.join(CACHE, "helper")
    env.pop("RUSTFLAGS", None)
    p = subprocess.run(["cargo", "build", "--offline", "--quiet", "--message-format=json"],
                       cwd=os.path.join(VERIF, "helper-macros"), env=env,
                       stdout=subprocess.PIPE, stderr=subprocess.PIPE, text=True)
    so = None
    for line in p.stdout.splitlines():
        try:
            m = json.loads(line)
        except ValueError:
            continue
        if m.get("reason") == "compiler-artifact" and m["target"]["name"] == "verif_helper":
            so = [f for f in m["filenames"] if f.endswith(".so")][0]
    if p.returncode != 0 or not so:
        raise MachineryError("helper-macros build failed:\n" + p.stderr[-3000:])
    return so


def tokview(requests):
    """requests: list of dicts {op, src|tt}; returns list of responses in order."""
    if not requests:
        return []
    exe = build_tokview()
    n = len(requests)
    chunks = max(1, min(JOBS, n // 200 + 1))
    size = (n + chunks - 1) // chunks

    def work(lo):
        part = requests[lo:lo + size]
        data = "\n".join(json.dumps(dict(r, id=i)) for i, r in enumerate(part)) + "\n"
        p = subprocess.run([exe], input=data, stdout=subprocess.PIPE, stderr=subprocess.PIPE, text=True)
        if p.returncode != 0:
            raise MachineryError("tokview failed: " + p.stderr[-2000:])
        out = [json.loads(l) for l in p.stdout.splitlines() if l.strip()]
        if len(out) != len(part):
            raise MachineryError("tokview answered %d of %d requests" % (len(out), len(part)))
        return out

    with concurrent.futures.ThreadPoolExecutor(chunks) as ex:
        parts = list(ex.map(work, range(0, n, size)))
    return [r for part in parts for r in part]


# ---------------------------------------------------------------------------------------------
# units, shards, compilation, attribution
# ---------------------------------------------------------------------------------------------

class Unit:
    """One state rendered as Rust source.

    src   : top-level item(s) for the shard crate; conventionally `mod <key> { ... }`
    call  : statement for main(), e.g. `rt::run("k", k::client);` (None for compile-only units)
    """
    __slots__ = ("key", "src", "call", "state")

    def __init__(self, key, src, call=None, state=None):
        self.key = key
        self.src = src.rstrip("\n") + "\n"
        self.call = call
        self.state = state


class Res:
    """What the implementation did with one unit."""
    def __init__(self):
        self.errors = []      # [{code, message, rendered}]
        self.records = []     # recorder records attributed to this unit
        self.out = {}         # runtime observations name -> [values]
        self.compiled = False
        self.ran = False
        self.crashed = None

    def first(self, k, default=None):
        v = self.out.get(k)
        return v[0] if v else default

    def compile_sig(self, key=None, n=70):
        """Stable signature of the first compile error (state-specific names removed)."""
        e = self.errors[0]
        msg = e["message"]
        if key:
            msg = msg.replace(key, "<state>")
        msg = re.sub(r"shard\d+", "<crate>", msg)
        return "compile:%s:%s" % (e.get("code") or "", msg[:n])

    def brief_errors(self):
        return ["%s: %s" % (e.get("code") or "error", e["message"]) for e in self.errors]


def _outer_line(span, fname):
    """Line in our generated file of the outermost macro call site of a span."""
    cur = span
    best = None
    seen = 0
    while cur is not None and seen < 50:
        if os.path.basename(cur.get("file_name", "")) == fname:
            best = cur["line_start"]
        exp = cur.get("expansion")
        cur = exp.get("span") if exp else None
        seen += 1
    return best


class Shard:
    def __init__(self, units, workdir, idx, header=""):
        self.units = list(units)
        self.dir = workdir
        self.idx = idx
        self.header = header
        self.fname = "shard%d.rs" % idx
        self.path = os.path.join(workdir, self.fname)
        self.ranges = []

    def write(self):
        parts = ["#![allow(warnings)]\n", self.header, RT_SRC]
        text = "".join(parts)
        if not text.endswith("\n"):
            text += "\n"
        line = text.count("\n") + 1
        self.ranges = []
        self.starts = {}
        chunks = [text]
        for u in self.units:
            n = u.src.count("\n")
            self.ranges.append((line, line + n - 1, u))
            self.starts[u.key] = line
            chunks.append(u.src)
            line += n
        chunks.append("fn main() {\n    rt::init();\n")
        for u in self.units:
            if u.call:
                chunks.append("    " + u.call + "\n")
        chunks.append("}\n")
        with open(self.path, "w") as f:
            f.write("".join(chunks))

    def unit_at(self, line):
        lo, hi = 0, len(self.ranges) - 1
        while lo <= hi:
            mid = (lo + hi) // 2
            a, b, u = self.ranges[mid]
            if line < a:
                hi = mid - 1
            elif line > b:
                lo = mid + 1
            else:
                return u
        return None


def rustc_cmd(art, path, out, emit, cfg_test, extra_externs=(), crate_type="bin", extra_args=()):
    cmd = ["rustc", "--edition", "2021", "--crate-type", crate_type, "--error-format=json",
           "-A", "warnings", "-C", "debuginfo=0", "-C", "opt-level=0",
           "-L", "dependency=" + art.deps_dir]
    for name in ("entrait", "unimock", "mockall", "async_trait"):
        cmd += ["--extern", "%s=%s" % (name, art.externs[name])]
    for name, p in extra_externs:
        cmd += ["--extern", "%s=%s" % (name, p)]
    if cfg_test:
        cmd += ["--cfg", "test"]
    if emit == "metadata":
        cmd += ["--emit=metadata"]
    cmd += list(extra_args)
    cmd += ["-o", out, path]
    return cmd


def _compile_once(shard, art, emit, cfg_test, extra_externs, dump_path, env_extra=None, extra_args=()):
    shard.write()
    out = os.path.join(shard.dir, "shard%d.%s" % (shard.idx, "bin" if emit == "link" else "rmeta"))
    env = dict(os.environ)
    env["ENTRAIT_VERIF_DUMP"] = dump_path
    if env_extra:
        env.update(env_extra)
    if os.path.exists(dump_path):
        os.remove(dump_path)
    cmd = rustc_cmd(art, shard.path, out, emit, cfg_test, extra_externs, extra_args=extra_args)
    p = subprocess.run(cmd, cwd=shard.dir, env=env, stdout=subprocess.PIPE, stderr=subprocess.PIPE, text=True)
    diags = []
    for line in p.stderr.splitlines():
        if not line.startswith("{"):
            if line.strip():
                diags.append({"level": "raw", "message": line, "spans": [], "code": None})
            continue
        try:
            d = json.loads(line)
        except ValueError:
            continue
        if d.get("$message_type", "diagnostic") != "diagnostic":
            continue
        diags.append(d)
    records = []
    if os.path.exists(dump_path):
        with open(dump_path) as f:
            for l in f:
                l = l.strip()
                if l:
                    records.append(json.loads(l))
    return p.returncode, diags, records, out, cmd


def _attribute(shard, diags):
    """-> {unit key: [error dict]}, [unattributed error messages]"""
    per = {}
    loose = []
    for d in diags:
        if d.get("level") not in ("error", "error: internal compiler error", "raw"):
            continue
        msg = d.get("message", "")
        if d.get("level") == "raw":
            loose.append(msg)
            continue
        if msg.startswith("aborting due to") or msg.startswith("could not compile"):
            continue
        spans = d.get("spans") or []
        prim = [s for s in spans if s.get("is_primary")] or spans
        line = None
        for s in prim:
            line = _outer_line(s, shard.fname)
            if line is not None:
                break
        if line is None:
            # look into children (e.g. notes with spans)
            for c in d.get("children", []):
                for s in c.get("spans", []):
                    line = _outer_line(s, shard.fname)
                    if line is not None:
                        break
                if line is not None:
                    break
        u = shard.unit_at(line) if line is not None else None
        if u is None:
            loose.append(msg + (" @line %s" % line if line else ""))
            continue
        code = (d.get("code") or {}).get("code") if d.get("code") else None
        per.setdefault(u.key, []).append({"code": code, "message": msg, "rel_line": line - shard.starts[u.key] + 1,
                                          "rendered": (d.get("rendered") or "")[:1500]})
    return per, loose


def _run_binary(shard, binpath, results, timeout=600):
    skip = []
    for attempt in range(64):
        env = dict(os.environ)
        env["VERIF_SKIP"] = ",".join(skip)
        try:
            p = subprocess.run([binpath], cwd=shard.dir, env=env, stdout=subprocess.PIPE,
                               stderr=subprocess.PIPE, text=True, timeout=timeout, errors="replace")
        except subprocess.TimeoutExpired:
            raise MachineryError("generated binary timed out: " + binpath)
        last = None
        seen = {}
        for line in p.stdout.splitlines():
            if not line.startswith("@@"):
                continue
            parts = line[2:].split("\t", 2)
            if len(parts) != 3:
                continue
            key, k, v = parts
            if k == "__begin":
                last = key
                seen[key] = {}
                continue
            seen.setdefault(key, {}).setdefault(k, []).append(
                v.replace("\\n", "\n").replace("\\t", "\t").replace("\\\\", "\\"))
        crashed_key = None
        if p.returncode != 0:
            crashed_key = last
            if crashed_key is None:
                raise MachineryError("generated binary died before any state ran (rc=%s): %s"
                                     % (p.returncode, p.stderr[-500:]))
        for key, obs in seen.items():
            r = results[key]
            if key == crashed_key:
                r.crashed = "process died (rc=%s) %s" % (p.returncode, p.stderr[-300:].strip())
                r.ran = True
                r.out = obs
            elif "__end" in obs or "__panic" in obs:
                r.out = obs
                r.ran = True
        if crashed_key is None:
            return
        skip.append(crashed_key)
        skip.extend(k for k in seen if k != crashed_key)
    raise MachineryError("too many crashes in generated binary " + binpath)


def _process_shard(args):
    (units, workdir, idx, art, mode, cfg_test, header, extra_externs, fixpoint, env_extra, extra_args) = args
    shard = Shard(units, workdir, idx, header)
    results = {u.key: Res() for u in units}
    emit = "link" if mode == "run" else "metadata"
    dump_path = os.path.join(workdir, "dump%d.jsonl" % idx)
    first = True
    iterations = 0
    stats = {"rustc_runs": 0}
    while True:
        iterations += 1
        if iterations > 40:
            raise MachineryError("fixpoint compilation did not converge for shard %d" % idx)
        if not shard.units:
            break
        rc, diags, records, out, cmd = _compile_once(shard, art, emit, cfg_test, extra_externs, dump_path,
                                                     env_extra, extra_args)
        stats["rustc_runs"] += 1
        if first:
            # recorder records of the first (complete) compilation are the ones we keep
            for rec in records:
                u = shard.unit_at(rec.get("line", -1))
                if u is None:
                    raise MachineryError("recorder record at line %s not attributable" % rec.get("line"))
                results[u.key].records.append(rec)
            first = False
        per, loose = _attribute(shard, diags)
        if rc == 0:
            for u in shard.units:
                results[u.key].compiled = True
            break
        if not per:
            raise MachineryError("rustc failed without an attributable error in shard %d:\n%s\ncmd: %s"
                                 % (idx, "\n".join(loose)[:3000], " ".join(cmd)))
        if loose and mode != "expand":
            # an error outside every state's lines is a bug in our own scaffold
            raise MachineryError("unattributable rustc error(s) in shard %d: %s" % (idx, loose[:5]))
        for key, errs in per.items():
            results[key].errors.extend(errs)
        if mode == "expand" or not fixpoint:
            break
        shard.units = [u for u in shard.units if u.key not in per]
    if mode == "run" and shard.units and rc == 0:
        _run_binary(shard, out, results)
        for u in shard.units:
            if u.call and not results[u.key].ran:
                raise MachineryError("state %s produced no runtime observation" % u.key)
    return results, stats


class Workdir:
    """Scratch directory outside /repo and /verif, removed on exit."""
    def __init__(self):
        self.path = tempfile.mkdtemp(prefix="entrait-verif-")

    def __enter__(self):
        return self.path

    def __exit__(self, *a):
        shutil.rmtree(self.path, ignore_errors=True)


def execute(units, feature=False, mode="run", cfg_test=False, header="", extra_externs=(),
            shard_size=None, fixpoint=True, env_extra=None, extra_args=()):
    """Push every unit through the real macro + rustc (+ execution). Returns ({key: Res}, stats).

    mode: 'expand' (one compilation, recorder records + whatever diagnostics appear),
          'check' (type+borrow check to a fixpoint), 'run' (check, link, execute).
    """
    units = list(units)
    keys = set()
    for u in units:
        if u.key in keys:
            raise MachineryError("duplicate state key " + u.key)
        keys.add(u.key)
    art = build_subject(feature)
    if shard_size is None:
        shard_size = max(1, min(400, (len(units) + JOBS - 1) // JOBS))
    shards = [units[i:i + shard_size] for i in range(0, len(units), shard_size)]
    results = {}
    stats = {"rustc_runs": 0, "shards": len(shards)}
    t0 = time.time()
    with Workdir() as wd:
        jobs = [(sh, wd, i, art, mode, cfg_test, header, tuple(extra_externs), fixpoint, env_extra, tuple(extra_args))
                for i, sh in enumerate(shards)]
        with concurrent.futures.ThreadPoolExecutor(JOBS) as ex:
            for res, st in ex.map(_process_shard, jobs):
                results.update(res)
                stats["rustc_runs"] += st["rustc_runs"]
    stats["wall_s"] = round(time.time() - t0, 2)
    return results, stats


def standalone_source(unit, header=""):
    """A self-contained crate for one unit (used for replay files)."""
    sh = Shard([unit], "/nonexistent", 0, header)
    parts = ["#![allow(warnings)]\n", header, RT_SRC, "\n", unit.src, "fn main() {\n    rt::init();\n"]
    if unit.call:
        parts.append("    " + unit.call + "\n")
    parts.append("}\n")
    return "".join(parts)


# ---------------------------------------------------------------------------------------------
# token-tree helpers (recorder format: ["i",s] ["p",c,joint] ["l",s] ["g",delim,[..]])
# ---------------------------------------------------------------------------------------------

def tt_loose(tt):
    """Token tree with punctuation spacing dropped (spacing is not preserved by syn printing)."""
    out = []
    for t in tt:
        if t[0] == "p":
            out.append(("p", t[1]))
        elif t[0] == "g":
            out.append(("g", t[1], tt_loose(t[2])))
        else:
            out.append((t[0], t[1]))
    return tuple(out)


def tt_strict(tt):
    out = []
    for t in tt:
        if t[0] == "p":
            out.append(("p", t[1], int(bool(t[2]))))
        elif t[0] == "g":
            out.append(("g", t[1], tt_strict(t[2])))
        else:
            out.append((t[0], t[1]))
    return tuple(out)


def tt_str(tt):
    """Readable rendering of a token tree."""
    out = []
    for t in tt:
        if t[0] == "g":
            close = {"(": ")", "{": "}", "[": "]", "": ""}[t[1]]
            out.append(t[1] + " " + tt_str(t[2]) + " " + close)
        elif t[0] == "p":
            out.append(t[1] if (len(t) > 2 and not t[2]) else t[1] + "\u200b")
        else:
            out.append(t[1])
    s = " ".join(out)
    return s.replace("\u200b ", "")


def tt_flat_idents(tt, acc=None):
    if acc is None:
        acc = []
    for t in tt:
        if t[0] == "i":
            acc.append(t[1])
        elif t[0] == "g":
            tt_flat_idents(t[2], acc)
    return acc
