// Runtime prelude pasted at the top of every generated shard crate (as `mod rt`).
// Observation channel: lines `@@<state key>\t<name>\t<value>` on stdout.
pub mod rt {
    use std::cell::RefCell;
    use std::future::Future;
    use std::io::Write;
    use std::sync::atomic::{AtomicUsize, Ordering};

    thread_local! {
        static TRACE: RefCell<Vec<String>> = RefCell::new(Vec::new());
        static CUR: RefCell<String> = RefCell::new(String::new());
    }

    /// Record one trace event.
    pub fn ev(s: String) {
        TRACE.with(|t| t.borrow_mut().push(s));
    }
    /// Identity of a borrowed value: its address.
    pub fn addr<T: ?Sized>(r: &T) -> usize {
        r as *const T as *const () as usize
    }
    pub fn tn<T: ?Sized>(_: &T) -> &'static str {
        std::any::type_name::<T>()
    }
    pub fn tn_of<T: ?Sized>() -> &'static str {
        std::any::type_name::<T>()
    }
    /// Drain the trace into one string.
    pub fn take() -> String {
        TRACE.with(|t| t.borrow_mut().drain(..).collect::<Vec<_>>().join(";"))
    }
    fn esc(s: &str) -> String {
        s.replace('\\', "\\\\").replace('\t', "\\t").replace('\n', "\\n").replace('\r', "\\r")
    }
    /// Emit one observation for the current state.
    pub fn out(k: &str, v: impl std::fmt::Display) {
        let cur = CUR.with(|c| c.borrow().clone());
        let mut o = std::io::stdout().lock();
        let _ = writeln!(o, "@@{}\t{}\t{}", cur, k, esc(&v.to_string()));
        let _ = o.flush();
    }
    pub fn init() {
        std::panic::set_hook(Box::new(|_| {}));
    }
    /// Run the client of one state, isolated by catch_unwind.
    pub fn run(key: &str, f: impl FnOnce()) {
        if let Ok(skip) = std::env::var("VERIF_SKIP") {
            if skip.split(',').any(|k| k == key) {
                return;
            }
        }
        CUR.with(|c| *c.borrow_mut() = key.to_string());
        TRACE.with(|t| t.borrow_mut().clear());
        out("__begin", "");
        match std::panic::catch_unwind(std::panic::AssertUnwindSafe(f)) {
            Ok(()) => out("__end", "ok"),
            Err(p) => {
                let msg = if let Some(s) = p.downcast_ref::<&str>() {
                    s.to_string()
                } else if let Some(s) = p.downcast_ref::<String>() {
                    s.clone()
                } else {
                    "<non-string panic>".to_string()
                };
                out("__panic", msg)
            }
        }
    }
    /// Catch a panic inside a client and return its message.
    pub fn catch<R>(f: impl FnOnce() -> R) -> Result<R, String> {
        std::panic::catch_unwind(std::panic::AssertUnwindSafe(f)).map_err(|p| {
            if let Some(s) = p.downcast_ref::<&str>() {
                s.to_string()
            } else if let Some(s) = p.downcast_ref::<String>() {
                s.clone()
            } else {
                "<non-string panic>".to_string()
            }
        })
    }

    /// Allocation-free executor: polls with a no-op waker until ready.
    pub fn block_on<F: Future>(f: F) -> F::Output {
        let mut f = std::pin::pin!(f);
        let waker = std::task::Waker::noop();
        let mut cx = std::task::Context::from_waker(&waker);
        let mut polls = 0usize;
        loop {
            if let std::task::Poll::Ready(v) = f.as_mut().poll(&mut cx) {
                return v;
            }
            polls += 1;
            if polls > 10_000 {
                panic!("block_on: future still pending after 10000 polls");
            }
        }
    }
    /// A future that is pending exactly once: makes a missing `.await` / undriven future observable.
    pub struct YieldOnce(pub bool);
    impl Future for YieldOnce {
        type Output = ();
        fn poll(mut self: std::pin::Pin<&mut Self>, cx: &mut std::task::Context<'_>) -> std::task::Poll<()> {
            if self.0 {
                std::task::Poll::Ready(())
            } else {
                self.0 = true;
                cx.waker().wake_by_ref();
                std::task::Poll::Pending
            }
        }
    }
    pub fn yield_once() -> YieldOnce {
        YieldOnce(false)
    }

    pub static ALLOCS: AtomicUsize = AtomicUsize::new(0);
    pub struct Counting;
    unsafe impl std::alloc::GlobalAlloc for Counting {
        unsafe fn alloc(&self, l: std::alloc::Layout) -> *mut u8 {
            ALLOCS.fetch_add(1, Ordering::Relaxed);
            std::alloc::System.alloc(l)
        }
        unsafe fn dealloc(&self, p: *mut u8, l: std::alloc::Layout) {
            std::alloc::System.dealloc(p, l)
        }
        unsafe fn realloc(&self, p: *mut u8, l: std::alloc::Layout, n: usize) -> *mut u8 {
            ALLOCS.fetch_add(1, Ordering::Relaxed);
            std::alloc::System.realloc(p, l, n)
        }
    }
    pub fn allocs() -> usize {
        ALLOCS.load(Ordering::Relaxed)
    }

    /// Auto-trait flavours for probe application types.
    /// `Bare`: Sync + 'static and nothing else that a macro could accidentally demand.
    pub struct BareMarker(
        std::marker::PhantomPinned,
        std::marker::PhantomData<std::sync::MutexGuard<'static, ()>>,
    );
    /// !Sync but Send.
    pub struct NotSyncMarker(std::marker::PhantomData<std::cell::Cell<u8>>);
    pub fn bare() -> BareMarker {
        BareMarker(std::marker::PhantomPinned, std::marker::PhantomData)
    }
    pub fn not_sync() -> NotSyncMarker {
        NotSyncMarker(std::marker::PhantomData)
    }
}
#[global_allocator]
static VERIF_ALLOC: rt::Counting = rt::Counting;

/// `implements!(Type: Bound + Bound)` -> runtime bool, never a compile error.
macro_rules! implements {
    ($ty:ty : $($tr:tt)+) => {{
        struct W<T: ?Sized>(::core::marker::PhantomData<T>);
        trait No { fn yes(&self) -> bool { false } }
        impl<T: ?Sized> No for W<T> {}
        impl<T: ?Sized + $($tr)+> W<T> { fn yes(&self) -> bool { true } }
        W::<$ty>(::core::marker::PhantomData).yes()
    }};
}

/// `is_send_val!(expr)` -> runtime bool: is the (possibly opaque) type of `expr` known to be Send here?
macro_rules! is_send_val {
    ($e:expr) => {{
        struct W<'a, T: ?Sized>(&'a T);
        trait No { fn yes(&self) -> bool { false } }
        impl<T: ?Sized> No for W<'_, T> {}
        impl<T: ?Sized + ::core::marker::Send> W<'_, T> { fn yes(&self) -> bool { true } }
        W(&$e).yes()
    }};
}
/// Compile-time witness that a future's Output is exactly `R`.
pub fn output_is<R, F: ::core::future::Future<Output = R>>(_: &F) {}
