"""C11 - unimock wiring: named mock API, and un-mocked calls reach the real function.

(unimock crate feature on, mock derivations active: compiled with --cfg test)
State  = (input mode fn / mod / trait, argument word, deps form, sync/async).
Model  = the mock API exists under exactly the `mock_api` name (fn: the mock fn itself; mod/trait: a module of mock fns);
         a clause matching the caller's arguments in declared order answers the call, a clause with the arguments
         permuted does not; on `Unimock::new_partial(())` a generic-deps / no_deps function runs the ORIGINAL function
         once, with the Unimock instance as deps (address + type name) and the same arguments, giving the same result as
         the Impl<T> path; concrete-deps functions and entraited traits cannot be unmocked (specific panic).
"""
import itertools

from .. import engine, common, gen

ID = "C11"

KINDS = {"i": ("i64", "{v}", "{v}", "{v}"), "s": ("&str", '"s{v}"', '"s{v}"', "s{v}"), "u": ("(i64, i64)", "({v}, {w})", "({v}, {w})", None)}
DEPS = ["impl", "gen", "nodeps", "concrete"]


PNAME_FN = [False]     # render-time switch: the first parameter is spelled like the function (`fm`)


def pname(k, i):
    if PNAME_FN[0] and i == 0 and k != "u":
        return "fm"
    return "(x%d, y%d)" % (i, i) if k == "u" else "x%d" % i


def shows(word):
    out = []
    for i, k in enumerate(word):
        out += ["x%d" % i, "y%d" % i] if k == "u" else [pname(k, i)]
    return out


def expected_args(word):
    out = []
    for i, k in enumerate(word):
        v, w = 10 + i, 50 + i
        out += [str(v), str(w)] if k == "u" else ["s%d" % v if k == "s" else str(v)]
    return out


ANYD = "&impl ::core::any::Any"
# functions with type / const parameters of their own: the un-mocked call must still reach them (only the partial-mock path is exercised:
# unimock's matching API for generic mock fns is outside this check)
SPECIAL = {
    "gen_nested_uses": ("#[::entrait::entrait(pub Tr, mock_api = TrMock)] pub fn fm<T: Clone + Send + Sync + 'static>(deps: %s, xs: &[T], pair: (T, T), arr: [T; 1]) -> usize { xs.len() + 10 }" % ANYD,
                        "m.fm(&[1u8, 2], (1u8, 2u8), [3u8])", "12"),
    "gen_plain_use": ("#[::entrait::entrait(pub Tr, mock_api = TrMock)] pub fn fm<T: Clone + Send + Sync + 'static + ::core::fmt::Display>(deps: %s, x: T) -> String { format!(\"{}\", x) }" % ANYD,
                      "m.fm(7u8)", "7"),
    "gen_nodeps": ("#[::entrait::entrait(pub Tr, mock_api = TrMock, no_deps)] pub fn fm<T: Clone + Send + Sync + 'static>(xs: &[T], n: usize) -> usize { xs.len() + n }",
                   "m.fm(&[1u8], 4)", "5"),
    "gen_in_module": ("#[::entrait::entrait(pub Tr, mock_api = TrMock)] pub mod m { pub fn fa(deps: %s) -> usize { 1 } pub fn fm<T: Clone + Send + Sync + 'static>(deps: %s, xs: &[T]) -> usize { xs.len() + 20 } }" % (ANYD, ANYD),
                      "Tr::<u8>::fm(&m, &[1u8, 2])", "22"),
}


def enumerate_states(tier):
    maxlen = 3 if tier == "thorough" else 2
    words, transitions = common.words("isu", maxlen)
    states = []
    for w in words:
        word = "".join(w)
        for deps in DEPS:
            for asy in (False, True):
                states.append(dict(key="u_fn_%s_%s_%s" % (word or "0", deps, "a" if asy else "s"), mode="fn", word=word, deps=deps, asy=asy))
                # the same wiring must come out when the options are spelled differently
                if len(w) <= 1:
                    for var in VARIANTS:
                        if var == "mockall" and (asy or deps == "gen"):
                            continue   # (mockall's own derive: sync, non-generic traits only)
                        if var == "maybe_send" and not asy:
                            continue
                        if var == "pname" and (len(w) != 1 or w[0] == "u"):
                            continue
                        states.append(dict(key="u_fn_%s_%s_%s_%s" % (word or "0", deps, "a" if asy else "s", var), mode="fn", word=word, deps=deps,
                                           asy=asy, variant=var))
        if word == "ii":
            for deps in ("impl", "nodeps"):
                for asy in (False, True):
                    states.append(dict(key="u_mac_%s_%s_%s" % (word, deps, "a" if asy else "s"), mode="mac", word=word, deps=deps, asy=asy))
        if len(w) <= 2:
            for deps in ("impl", "nodeps"):
                for asy in (False, True):
                    states.append(dict(key="u_mod_%s_%s_%s" % (word or "0", deps, "a" if asy else "s"), mode="mod", word=word, deps=deps, asy=asy))
            for asy in (False, True):
                states.append(dict(key="u_trait_%s_%s" % (word or "0", "a" if asy else "s"), mode="trait", word=word, deps="trait", asy=asy))
    for name in SPECIAL:
        states.append(dict(key="u_special_" + name, mode="special", special=name, word="", deps="impl", asy=False))
    return states, len(states), dict(arg_kinds=list(KINDS), word_len=maxlen, deps=DEPS)


VARIANTS = {
    # name -> (macro name, extra options)
    "export_explicit": ("entrait_export", ", export"),
    "export_false": ("entrait_export", ", export = false"),
    "export_opt": ("entrait", ", export = true, unimock = true"),
    "mockall": ("entrait", ", mockall"),
    # qualifiers and the Send opt-out do not belong to the wiring: the un-mocked call must reach the function all the same
    "unsafe": ("entrait", "", "unsafe "),
    "maybe_send": ("entrait", ", ?Send"),
    # the first parameter is named like the function (it is renamed in the generated method; the un-mock call must still reach the fn)
    "pname": ("entrait", "", "", True),
}
NAMES3 = ["fm", "fa", "fz"]      # declared in a non-alphabetical order on purpose


def names(s):
    if s["mode"] == "mac":
        return ["fm"]
    return NAMES3 if s["mode"] in ("mod", "trait") else ["fm"]


def render(s):
    PNAME_FN[0] = len(VARIANTS.get(s.get("variant"), ())) > 3
    try:
        return render_(s)
    finally:
        PNAME_FN[0] = False


def render_(s):
    if s.get("special"):
        items, call, exp = SPECIAL[s["special"]]
        L = ["mod %s {" % s["key"], "    use super::rt;", "    use ::unimock::*;", "    " + items, "    pub fn client() {",
             '        let r = rt::catch(|| { let m = Unimock::new_partial(()); format!("{}", %s) });' % call,
             '        rt::out("partial", match r { Ok(v) => v, Err(e) => format!("PANIC:{}", e) });', "    }", "}"]
        return engine.Unit(s["key"], "\n".join(L), 'rt::run("%s", %s::client);' % (s["key"], s["key"]), s)
    key, word, deps, asy = s["key"], s["word"], s["deps"], s["asy"]
    A = "async " if asy else ""
    params = ", ".join("%s: %s" % (pname(k, i), KINDS[k][0]) for i, k in enumerate(word))
    sh = shows(word)
    qual = (VARIANTS.get(s.get("variant")) or ("", "", ""))[2:3]
    qual = qual[0] if qual else ""
    L = ["mod %s {" % key, "    use super::rt;", "    use ::unimock::*;", "    pub struct Cfg(pub i64);"]

    def fn_src(j, vis="pub "):
        if deps == "impl":
            head, first, dshow = "", "deps: &impl ::core::any::Any", ['format!("{:x}", rt::addr(deps))', "rt::tn(deps)"]
        elif deps == "gen":
            head, first, dshow = "<D: ::core::any::Any>", "deps: &D", ['format!("{:x}", rt::addr(deps))', "rt::tn(deps)"]
        elif deps == "concrete":
            head, first, dshow = "", "deps: &Cfg", ['format!("{:x}", rt::addr(deps))', "rt::tn(deps)"]
        else:
            head, first, dshow = "", "", ['"-"', '"-"']
        ps = ", ".join(x for x in [first, params] if x)
        body = ("rt::yield_once().await; " if asy else "") + "rt::ev(%s); %s" % (gen.fmt_call("E%d" % j, dshow + sh), gen.fmt_call("R%d" % j, sh))
        return "%s%s%sfn %s%s(%s) -> String { %s }" % (vis, A, qual, NAMES3[j], head, ps, body)

    if s["mode"] == "fn":
        mac, extra = VARIANTS.get(s.get("variant"), ("entrait", ""))[:2]
        L.append("    #[::entrait::%s(pub Tr, mock_api = TrMock%s%s)]" % (mac, ", no_deps" if deps == "nodeps" else "", extra))
        L.append("    " + fn_src(0))
        api = lambda j: "TrMock"
    elif s["mode"] == "mac":
        L.append("    macro_rules! stamp { ($p:ident) => {")
        L.append("    #[::entrait::entrait(pub Tr, mock_api = TrMock%s)]" % (", no_deps" if deps == "nodeps" else ""))
        L.append("    " + fn_src(0).replace("x0: i64", "$p: i64").replace(", x0, ", ", $p, "))
        L.append("    } }")
        L.append("    stamp!(x1);")
        api = lambda j: "TrMock"
    elif s["mode"] == "mod":
        L.append("    #[::entrait::entrait(pub Tr, mock_api = TrMock%s)]" % (", no_deps" if deps == "nodeps" else ""))
        L.append("    pub mod m { use super::*;")
        for j in range(3):
            # (an enabled `#[cfg]` on one of the functions must not change its wiring)
            L.append("        " + ("#[cfg(all())] " if j == 1 else "") + fn_src(j))
        L.append("    }")
        api = lambda j: "m::TrMock::%s" % NAMES3[j]      # (for modules the mock API is generated inside the module, next to the trait)
    else:
        L.append("    #[::entrait::entrait(mock_api = TrMock)]")
        L.append("    pub trait Tr {")
        for j in range(3):
            L.append("        %sfn %s(&self%s) -> String;" % (A, NAMES3[j], "".join(", x%d: %s" % (i, KINDS[k][0]) for i, k in enumerate(word))))
        L.append("    }")
        L.append("    pub struct App;")
        L.append("    impl Tr for App {")
        for j in range(3):
            tps = "".join(", %s: %s" % (pname(k, i), KINDS[k][0]) for i, k in enumerate(word))
            L.append("        %sfn %s(&self%s) -> String { %s }" % (A, NAMES3[j], tps, gen.fmt_call("R%d" % j, sh)))
        L.append("    }")
        api = lambda j: "TrMock::%s" % NAMES3[j]
    args = [KINDS[k][1].format(v=10 + i, w=50 + i) for i, k in enumerate(word)]
    pats = [KINDS[k][2].format(v=10 + i, w=50 + i) for i, k in enumerate(word)]
    perm = None
    if len(word) >= 2 and word[0] == word[1]:
        perm = [pats[1], pats[0]] + pats[2:]

    def wrap(e):
        e = "rt::block_on(%s)" % e if asy else e
        return "unsafe { %s }" % e if qual else e
    L.append("    pub fn client() {")
    for j, f in enumerate(names(s)):
        call = lambda recv: wrap("%s.%s(%s)" % (recv, f, ", ".join(args)))
        L.append('        { let r = rt::catch(|| { let m = Unimock::new(%s.each_call(matching!(%s)).returns("ANS%d".to_string())); %s });'
                 % (api(j), ", ".join(pats), j, call("m")))
        L.append('          rt::out("mocked%d", format!("{:?}", r)); }' % j)
        if perm:
            L.append('        { let r = rt::catch(|| { let m = Unimock::new(%s.each_call(matching!(%s)).returns("ANS%d".to_string())); %s });'
                     % (api(j), ", ".join(perm), j, call("m")))
            L.append('          rt::out("permuted%d", if r.is_ok() { "answered" } else { "no-match" }); }' % j)
        L.append('        { let r = rt::catch(|| { let m = Unimock::new_partial(()); let a = rt::addr(&m); let t = rt::tn(&m); let r = %s; format!("{}##{}##{:x}|{}", rt::take(), r, a, t) });'
                 % call("m"))
        L.append('          rt::out("partial%d", match r { Ok(v) => v, Err(e) => format!("PANIC:{}", e) }); let _ = rt::take(); }' % j)
        if s["mode"] == "trait":
            L.append('        { let app = ::entrait::Impl::new(App); rt::out("impl%d", %s); }' % (j, call("app")))
        elif deps == "concrete":
            L.append('        { let app = ::entrait::Impl::new(Cfg(1)); let r = %s; let _ = rt::take(); rt::out("impl%d", r); }' % (call("app"), j))
        else:
            L.append('        { let app = ::entrait::Impl::new(()); let r = %s; let _ = rt::take(); rt::out("impl%d", r); }' % (call("app"), j))
    L += ["    }", "}"]
    return engine.Unit(key, "\n".join(L), 'rt::run("%s", %s::client);' % (key, key), s)


def model(s):
    if s.get("special"):
        return dict(partial=SPECIAL[s["special"]][2])
    exp = {}
    ea = expected_args(s["word"])
    unmockable = s["deps"] in ("impl", "gen", "nodeps")
    for j, _ in enumerate(names(s)):
        exp["mocked%d" % j] = 'Ok("ANS%d")' % j
        if len(s["word"]) >= 2 and s["word"][0] == s["word"][1]:
            exp["permuted%d" % j] = "no-match"
        exp["impl%d" % j] = "|".join(["R%d" % j] + ea)
        exp["partial%d" % j] = dict(unmockable=unmockable, fn=j, args=ea, result="|".join(["R%d" % j] + ea), nodeps=s["deps"] == "nodeps")
    return exp


def evaluate(states, report, tier):
    units = [render(s) for s in states]
    results, stats = engine.execute(units, feature=True, mode="run", cfg_test=True)
    report.phases.append(dict(stats, feature=True, cfg_test=True))
    for s, u in zip(states, units):
        res = results[s["key"]]
        m = model(s)
        problems, obs = [], {}
        if any("panic" in r for r in res.records):
            problems.append(("macro-panic", str([r.get("panic") for r in res.records])))
        elif res.errors:
            sig = res.compile_sig(s["key"])
            if "TrMock" in res.errors[0]["message"]:
                sig = "mock-api-name-not-found:" + sig
            problems.append((sig, "\n".join(res.brief_errors()[:5])))
        elif res.crashed or "__panic" in res.out:
            problems.append(("client-crash", str(res.crashed or res.out.get("__panic"))))
        else:
            for name, e in m.items():
                got = res.first(name)
                if s.get("special"):
                    obs[name] = got
                    if got != e:
                        problems.append(("unmock-panicked" if (got or "").startswith("PANIC:") else "unmock-result", "%s: %r, model says %r" % (name, (got or "")[:300], e)))
                    continue
                if isinstance(e, str):
                    obs[name] = got
                    if got != e:
                        sig = {"moc": "mocked-call", "per": "permuted-arguments-matched", "imp": "impl-path"}[name[:3]]
                        problems.append((sig, "%s: %r, model says %r" % (name, got, e)))
                    continue
                # partial (un-mocked) call
                if not e["unmockable"]:
                    obs[name] = "panic" if (got or "").startswith("PANIC:") else "ran"
                    if not (got or "").startswith("PANIC:"):
                        problems.append(("unmocked-although-not-unmockable", "%s: %r" % (name, got)))
                    elif "cannot be unmocked" not in got:
                        problems.append(("unexpected-panic", got[:300]))
                    continue
                if (got or "").startswith("PANIC:"):
                    obs[name] = "panic"
                    problems.append(("unmock-panicked", got[:300]))
                    continue
                trace, result, who = (got or "####").split("##")
                addr, tn = who.split("|", 1) if "|" in who else ("", "")
                want_trace = "|".join(["E%d" % e["fn"]] + (["-", "-"] if e["nodeps"] else [addr, tn]) + e["args"])
                obs[name] = [trace.replace(addr, "<mock>") if addr else trace, result]
                if trace != want_trace:
                    events = trace.split(";") if trace else []
                    sig = "unmock-trace:%d-events" % len(events) if len(events) != 1 else \
                        "unmock-trace:wrong-function" if not trace.startswith("E%d|" % e["fn"]) else \
                        "unmock-trace:wrong-deps" if (not e["nodeps"] and trace.split("|")[1:3] != [addr, tn]) else "unmock-trace:wrong-arguments"
                    problems.append((sig, "%s: trace %r, model says %r" % (name, trace, want_trace)))
                if not e["nodeps"] and "Unimock" not in tn:
                    problems.append(("unmock-deps-not-the-mock", tn))
                if result != e["result"]:
                    problems.append(("unmock-result", "%s: %r, model says %r" % (name, result, e["result"])))
        report.observe(s["key"], m, obs if not problems else dict(obs, problems=sorted(set(p[0] for p in problems))),
                       nontrivial=True, sample=dict(source=u.src), evals=len(m))
        done = set()
        for sig, detail in problems:
            if sig in done:
                continue
            done.add(sig)
            tags = {"mode:" + s["mode"], "deps:" + s["deps"], "async" if s["asy"] else "sync", "arity:%d" % len(s["word"]),
                    "variant:" + s.get("variant", "plain")} | {"arg:" + k for k in s["word"]}
            report.violation(s["key"], tags, sig, detail, state=s, source=engine.standalone_source(u), meta=dict(mode="run", feature=True, cfg_test=True))


def run(report, tier):
    states, transitions, bound = enumerate_states(tier)
    report.space(len(states), transitions, bound,
                 "argument words over %s x deps forms %s x sync/async for single fns; modules of three same-signature fns; entraited traits with "
                 "three same-signature methods; every state non-trivial" % (list(KINDS), DEPS))
    report.assumptions += ["unimock 0.6.8 as shipped (matching!, each_call, returns, new_partial)"]
    evaluate(states, report, tier)
