"""C17 - options mean what the table says; macro variants are option shorthands.

State graph: nodes = option sets, edges = "append one option"; every path (ordering) into a node is an
invocation.  Plus the lattice of value forms {absent, bare, =true, =false} of every boolean option, both
macro names, both crate features, four item kinds.

Model: a semantic key computed from the *statement* (bare == true, no_deps/export =false == omitted,
order irrelevant, entrait_export == +export unless explicit, feature == +unimock unless explicit).
All invocations of one item with the same key must expand to identical tokens; options outside their
documented target must be rejected.
"""
import itertools

from .. import engine, common

ID = "C17"

ITEMS = {
    "fn": "pub async fn f(deps: &impl ::core::any::Any, a: i64) -> i64 { a }",
    "mod": "pub mod m { pub async fn a(deps: &impl ::core::any::Any, x: i64) -> i64 { x } pub fn b(deps: &impl ::core::any::Any) {} fn private() {} }",
    "trait": "pub trait T { async fn m(&self, a: i64) -> i64; fn n(&self); }",
    "impl": "impl TrImpl for X { fn a(deps: &impl ::core::any::Any) {} }",
    # concrete dependency: the expansion contains a nested entrait invocation on the generated trait (two records)
    "fnconc": "pub async fn f(deps: &Cfg, a: i64) -> i64 { a }",
    # a function without any parameter: `no_deps` (in every spelling of "true") is what makes it acceptable
    "fn0": "pub fn f() -> i64 { 1 }",
}
BOOLS = ["no_deps", "export", "unimock", "mockall"]
FORMS = ["absent", "bare", "true", "false"]


def opt_text(name, form):
    if form == "bare":
        return name
    return "%s = %s" % (name, form)


def sem_fn(variant_export, feature, forms, mock_api, maybe_send):
    """Semantic key of a fn/mod invocation, straight from the statement."""
    def val(name):
        f = forms.get(name, "absent")
        return None if f == "absent" else f in ("bare", "true")
    nd = val("no_deps") or False                                   # =false identical to omitted
    ex = val("export")
    ex = (variant_export if ex is None else ex)                     # variant default unless explicit; =false == omitted
    um = val("unimock")
    um = (feature if um is None else um)                            # table: default false, true with the crate feature
    ma = val("mockall") or False                                    # table: default false
    return ("nd", nd, "ex", ex, "um", um, "ma", ma, "api", mock_api, "send", not maybe_send)


def fn_invocations(item):
    """-> list of dict(attr, variant, feature, key)"""
    inv = []
    # (1) value-form lattice in canonical order
    for forms in itertools.product(FORMS, repeat=4):
        fm = dict(zip(BOOLS, forms))
        for api in (False, True):
            for ms in (False, True):
                parts = ["Tr"]
                parts += [opt_text(n, fm[n]) for n in BOOLS if fm[n] != "absent"]
                if api:
                    parts.append("mock_api = TrMock")
                if ms:
                    parts.append("?Send")
                for variant in ("entrait", "entrait_export"):
                    for feature in (False, True):
                        inv.append(dict(attr=", ".join(parts), variant=variant, feature=feature,
                                        key=sem_fn(variant == "entrait_export", feature, fm, api, ms), family="forms"))
    # (2) every ordered selection of the six options (bare forms)
    opts = ["no_deps", "export", "unimock", "mockall", "mock_api = TrMock", "?Send"]
    for k in range(0, len(opts) + 1):
        for sel in itertools.permutations(opts, k):
            fm = {n: "bare" for n in BOOLS if n in sel}
            api = "mock_api = TrMock" in sel
            ms = "?Send" in sel
            for variant, feature in (("entrait", False), ("entrait_export", True)):
                inv.append(dict(attr=", ".join(["Tr"] + list(sel)), variant=variant, feature=feature,
                                key=sem_fn(variant == "entrait_export", feature, fm, api, ms), family="orders"))
    # (3) `debug` only prints the expansion: wherever it is written, in whatever form, the tokens are those of the invocation without it
    for base, fm, api, ms in (([], {}, False, False), (["mock_api = TrMock"], {}, True, False), (["mockall"], {"mockall": "bare"}, False, False),
                              (["export", "?Send"], {"export": "bare"}, False, True), (["unimock = false", "mock_api = TrMock"], {"unimock": "false"}, True, False)):
        for dbg in ("debug", "debug = true", "debug = false"):
            for pos in range(len(base) + 1):
                parts = ["Tr"] + base[:pos] + [dbg] + base[pos:]
                for variant, feature in (("entrait", False), ("entrait", True), ("entrait_export", False)):
                    inv.append(dict(attr=", ".join(parts), variant=variant, feature=feature,
                                    key=sem_fn(variant == "entrait_export", feature, fm, api, ms), family="debug"))
    if item == "mod":
        # `no_deps` is documented for fn targets only: its effect on modules is not prescribed -> drop those
        inv = [i for i in inv if "no_deps" not in i["attr"]]
    return inv


def trait_invocations():
    inv = []
    # the delegation option in its three spellings of interest: `= ref`, the documented default written out (`= Self`, which
    # the option table equates with omitting it) and the bare word (accepted by the parser; no documented meaning, so it
    # only has to be order-independent: it gets a key component of its own)
    base_opts = ["mock_api = TMock", "unimock", "mockall", "?Send"]
    seen = set()
    for dgopt in ("delegate_by = ref", "delegate_by = Self", "delegate_by"):
        opts = base_opts + [dgopt]
        for lead in ("", "TImpl"):
            for k in range(0, len(opts) + 1):
                for sel in itertools.permutations(opts, k):
                    if lead and "delegate_by = ref" not in sel:
                        continue  # a delegation target needs delegate_by (C15's business)
                    if (lead, sel) in seen:
                        continue
                    seen.add((lead, sel))
                    um = True if "unimock" in sel else None
                    for variant, feature in (("entrait", False), ("entrait", True)):
                        u = um if um is not None else feature
                        key = ("lead", lead, "um", u, "ma", "mockall" in sel, "api", "mock_api = TMock" in sel,
                               "send", "?Send" not in sel, "dg", "delegate_by = ref" in sel)
                        if "delegate_by" in sel:
                            key += ("dgbare",)
                        inv.append(dict(attr=", ".join(([lead] if lead else []) + list(sel)), variant=variant, feature=feature,
                                        key=key, family="orders", undocumented="delegate_by" in sel))
    for dbg in ("debug", "debug = true", "debug = false"):
        for sel in ([], ["delegate_by = ref"], ["mock_api = TMock", "mockall"]):
            for pos in range(len(sel) + 1):
                for feature in (False, True):
                    key = ("lead", "", "um", feature, "ma", "mockall" in sel, "api", "mock_api = TMock" in sel, "send", True, "dg", "delegate_by = ref" in sel)
                    inv.append(dict(attr=", ".join(sel[:pos] + [dbg] + sel[pos:]), variant="entrait", feature=feature, key=key, family="debug"))
    # value forms of the boolean trait options
    for fu in FORMS:
        for fm in FORMS:
            parts = []
            if fu != "absent":
                parts.append(opt_text("unimock", fu))
            if fm != "absent":
                parts.append(opt_text("mockall", fm))
            for feature in (False, True):
                u = None if fu == "absent" else fu in ("bare", "true")
                u = (feature if u is None else u)
                m = False if fm == "absent" else fm in ("bare", "true")
                inv.append(dict(attr=", ".join(parts), variant="entrait", feature=feature,
                                key=("forms", "um", u, "ma", m), family="forms"))
    return inv


# target table from the documentation: option -> targets on which it must be accepted / rejected
TARGETS = {
    "no_deps": dict(fn=True, mod=None, trait=False, impl=False),
    "export": dict(fn=True, mod=True, trait=False, impl=False),
    "mock_api = M": dict(fn=True, mod=True, trait=True, impl=False),
    "unimock = false": dict(fn=True, mod=True, trait=True, impl=False),
    "mockall = false": dict(fn=True, mod=True, trait=True, impl=False),
    "delegate_by = ref": dict(fn=False, mod=False, trait=True, impl=False),
    "delegate_by = Self": dict(fn=False, mod=False, trait=True, impl=False),
    "?Send": dict(fn=True, mod=True, trait=True, impl=False),
}


def target_invocations():
    inv = []
    for opt, tab in TARGETS.items():
        for item, accept in tab.items():
            if accept is None:
                continue
            # alone, and (for options that must be rejected) before / after every option the target does accept
            combos = [[opt]]
            if not accept:
                for other, tab2 in TARGETS.items():
                    if tab2.get(item) and other != opt and other.split(" ")[0] != opt.split(" ")[0]:
                        combos += [[opt, other], [other, opt]]
            for variant in ("entrait", "entrait_export"):
                lead = "Tr, " if item in ("fn", "mod") else ""
                for c in combos:
                    inv.append(dict(item=item, attr=lead + ", ".join(c), variant=variant, feature=False, accept=accept, family="targets"))
    return inv


def enumerate_states(tier):
    states = []
    for item in ("fn", "mod"):
        for i in fn_invocations(item):
            states.append(dict(i, item=item))
    for i in fn_invocations("fn"):
        if i["attr"].count(",") <= 2:
            states.append(dict(i, item="fnconc"))
        if i["family"] == "forms" and i["attr"].count(",") <= 2 and i["variant"] == "entrait" and not i["feature"]:
            states.append(dict(i, item="fn0"))
    for i in trait_invocations():
        states.append(dict(i, item="trait"))
    # impl blocks: `ref`, `dyn` and `ref dyn` are three spellings of the dynamic kind; `debug` changes nothing
    for attr, kind in (("", "static"), ("debug", "static"), ("debug = false", "static"), ("ref", "dyn"), ("dyn", "dyn"), ("ref dyn", "dyn"), ("ref debug", "dyn"), ("dyn debug = true", "dyn")):
        for feature in (False, True):
            states.append(dict(attr=attr, variant="entrait", feature=feature, key=("implkind", kind), family="implkind", item="impl"))
    states += target_invocations()
    for n, s in enumerate(states):
        s["key_sem"] = repr(s.pop("key")) if "key" in s else None
        s["key"] = "v%05d" % n
    # edges: each ordered selection of length k has one incoming 'append option' edge; each value-form point has
    # one edge per boolean dimension to its neighbours
    transitions = sum(max(1, s["attr"].count(",")) for s in states)
    return states, transitions, dict(orderings="all ordered selections of the 6 fn/mod options and the 5 trait options",
                                     value_forms="4^4 boolean forms x mock_api x ?Send", macro_names=2, features=2)


def render(s):
    key = s["key"]
    attr = s["attr"].strip().strip(",").strip()
    L = ["mod %s {" % key]
    if s["item"] == "impl":
        L.append("    pub struct X;")
    if s["item"] == "fnconc":
        L.append("    pub struct Cfg;")
    L.append("    #[::entrait::%s(%s)]" % (s["variant"], attr))
    L.append("    " + ITEMS[s["item"]])
    L.append("}")
    return engine.Unit(key, "\n".join(L), None, s)


def is_rejection(rec):
    out = rec.get("output_tt") or []
    if out and out[0][0] == "g" and out[0][1] == "":
        out = out[0][2]
    idents = engine.tt_flat_idents(out[:8])
    return "compile_error" in idents


def evaluate(states, report, tier):
    outputs = {}
    nested = {}
    units = {}
    for feature in (False, True):
        group = [s for s in states if s["feature"] == feature]
        if not group:
            continue
        us = [render(s) for s in group]
        res, stats = engine.execute(us, feature=feature, mode="expand", shard_size=max(1, (len(us) + 15) // 16))
        report.phases.append(dict(feature=feature, states=len(group), **stats))
        for s, u in zip(group, us):
            units[s["key"]] = u
            recs = res[s["key"]].records
            if s["item"] == "fnconc" and len(recs) == 2:
                # outer invocation + the nested one on the generated trait. Only the outer expansion is compared: the nested
                # invocation's *input* depends on whether rustc could resolve the unimock attribute before it (crate feature)
                outputs[s["key"]] = recs[0]
                nested[s["key"]] = recs[1]
            else:
                outputs[s["key"]] = recs[0] if len(recs) == 1 else None
    # group by (item, semantic key)
    groups = {}
    for s in states:
        if s.get("key_sem") is not None:
            groups.setdefault((s["item"], s["key_sem"]), []).append(s)
    rep_of = {}
    for gk, members in groups.items():
        # representative = first member in enumeration order (canonical, simplest)
        rep_of[gk] = members[0]
    for s in states:
        rec = outputs[s["key"]]
        u = units[s["key"]]
        problems = []
        if rec is None:
            problems.append(("recorder", "expected exactly one record"))
            observed = None
        elif "panic" in rec:
            problems.append(("macro-panic", rec["panic"]))
            observed = "panic"
        elif s["family"] == "targets":
            rej = is_rejection(rec)
            observed = "rejected" if rej else "accepted"
            if s["accept"] and rej:
                problems.append(("documented-option-rejected:" + s["item"], rec["output"][:200]))
            if not s["accept"] and not rej:
                problems.append(("undocumented-option-accepted:" + s["item"], "`%s` on %s expanded instead of being rejected" % (s["attr"], s["item"])))
        else:
            rep = rep_of[(s["item"], s["key_sem"])]
            rrec = outputs[rep["key"]]
            observed = "class:%s:%d" % (s["item"], hash(engine.tt_strict(rec["output_tt"])) & 0xffffffff)
            # (bare `delegate_by` has no documented meaning: a tree may reject it, but then in every position)
            lenient = s["item"] == "fn0" or s.get("undocumented")
            if is_rejection(rec) and not lenient:
                problems.append(("valid-options-rejected", rec["output"][:200]))
            elif lenient and rrec is not None and is_rejection(rec) != is_rejection(rrec):
                problems.append(("accepted-vs-rejected-within-equivalent-options", "#[%s(%s)] %s, the equivalent #[%s(%s)] %s"
                                 % (s["variant"], s["attr"], "rejected" if is_rejection(rec) else "accepted", rep["variant"], rep["attr"],
                                    "rejected" if is_rejection(rrec) else "accepted")))
            elif rrec is not None and "output_tt" in rrec and engine.tt_strict(rec["output_tt"]) != engine.tt_strict(rrec["output_tt"]):
                problems.append(("differs-from-equivalent:" + s["family"],
                                 "#[%s(%s)] (feature %s) expands differently from the equivalent #[%s(%s)] (feature %s)\n%s\n  vs\n%s"
                                 % (s["variant"], s["attr"], s["feature"], rep["variant"], rep["attr"], rep["feature"],
                                    rec["output"][:1500], rrec["output"][:1500])))
        # concrete dependency: the expansion is finished by a nested invocation on the generated trait. Where the outer arguments set
        # `unimock` explicitly the END result may not depend on the crate feature either (the nested invocation must not fall back to it)
        if not problems and s["item"] == "fnconc" and "unimock" in s["attr"] and s["key"] in nested and rep["key"] in nested:
            a, b = nested[s["key"]], nested[rep["key"]]
            if "output_tt" in a and "output_tt" in b and engine.tt_strict(a["input_tt"]) == engine.tt_strict(b["input_tt"]) \
                    and engine.tt_strict(a["output_tt"]) != engine.tt_strict(b["output_tt"]):
                problems.append(("nested-expansion-differs-from-equivalent:" + s["family"],
                                 "#[%s(%s)] (feature %s) and the equivalent #[%s(%s)] (feature %s) hand the same trait to the nested invocation "
                                 "(#[entrait(%s)] / #[entrait(%s)]) but end up with different code\n%s\n  vs\n%s"
                                 % (s["variant"], s["attr"], s["feature"], rep["variant"], rep["attr"], rep["feature"], a.get("attr"), b.get("attr"),
                                    a["output"][:1200], b["output"][:1200])))
        model = s.get("key_sem") or ("accept" if s.get("accept") else "reject")
        report.observe(s["key"], model, observed if not problems else [p[0] for p in problems], nontrivial=bool(s["attr"]),
                       sample=dict(invocation="#[::entrait::%s(%s)] on %s, unimock feature %s" % (s["variant"], s["attr"], s["item"], s["feature"]),
                                   output=(rec or {}).get("output", "")[:600]))
        for sig, detail in problems:
            tags = {"item:" + s["item"], "variant:" + s["variant"], "feature:" + str(s["feature"]), "family:" + s["family"]}
            for o in BOOLS + ["mock_api", "?Send", "delegate_by"]:
                if o in s["attr"]:
                    tags.add("opt:" + o)
            report.violation(s["key"], tags, sig, detail, state=s, source=engine.standalone_source(u),
                             meta=dict(mode="expand", feature=s["feature"]))
    report.extra["equivalence_classes"] = len(groups)
    report.extra["metamorphic_pairs_compared"] = sum(len(m) - 1 for m in groups.values())


def run(report, tier):
    states, transitions, bound = enumerate_states(tier)
    report.space(len(states), transitions, bound,
                 "every ordered option selection and every value-form combination, on fn/mod/trait/impl items, both macro names, "
                 "both features; grouped by the semantic key derived from the statement; non-trivial = at least one option")
    evaluate(states, report, tier)
