"""C12 - async methods: exact Output type, Send by default, opt-out honoured.

State  = (input mode, return type kind, default / ?Send, native / async_trait, clean body / body holding an Rc across an await).
Model  = the generated method returns a future whose Output is exactly the declared type; the future is *declared* Send
         (observable in a generic context `fn p<D: Tr>(d: &D)`) iff ?Send was not given; driving it gives the function's result;
         a non-Send body compiles under ?Send and is rejected by default; with async_trait the `async fn` is kept and the
         attribute is re-applied to every generated trait and trait impl.
"""
import itertools

from .. import engine, common

ID = "C12"

MODES = ["fn", "fn_conc", "mod", "trait_self", "static_target", "trait_ref", "dyn_target"]   # fn_conc: concrete dependency (the trait goes through a nested invocation)
RETS = {
    # kind -> (return type as written, Output type to ascribe, extra generics, extra params, extra args, value expr (fn modes), value expr (trait modes), expected Display)
    "unit": dict(ret="", out="()", g="", ps="", args="", val="()", tval="()", exp="()"),
    "i64": dict(ret="-> i64", out="i64", g="", ps="", args="", val="*deps.num() + 1", tval="self.num + 1", exp="8"),
    "ref_deps": dict(ret="-> &i64", out="&i64", g="", ps="", args="", val="deps.num()", tval="&self.num", exp="7"),
    "ref_arg": dict(ret="-> &'a str", out="&str", g="'a", ps="s: &'a str", args='"s11"', val="s", tval="s", exp="s11"),
    "generic": dict(ret="-> T", out="i64", g="T: ::core::marker::Send", ps="t: T", args="11i64", val="t", tval="t", exp="11", dyn=False),
}
RC_PRE = "let rc = ::std::rc::Rc::new(1u8); "
RC_POST = "drop(rc); "


HEADER = "pub mod reexp { pub use ::async_trait::async_trait; }\n"
FLK = {"native": "na", "async_trait": "as", "async_trait_re": "ar"}


def enumerate_states(tier):
    states = []
    for mode, ret, ms, body in itertools.product(MODES, RETS, (False, True), ("clean", "rc")):
        flavours = {"fn": ["native"], "fn_conc": ["native"], "mod": ["native"], "trait_self": ["native", "async_trait"], "static_target": ["native", "async_trait"],
                    "trait_ref": ["async_trait"], "dyn_target": ["async_trait"]}[mode]
        flavours = flavours + (["async_trait_re"] if "async_trait" in flavours else [])   # the attribute named through a re-export
        for fl in flavours:
            if mode in ("trait_ref", "dyn_target") and not RETS[ret].get("dyn", True):
                continue   # generic methods are not dyn-compatible
            if mode == "static_target" and ret == "generic":
                continue   # type parameters of impl-block fns are lifted to the delegation-target trait: generic methods are unsupported there
            for mixed in ((False, True) if mode not in ("fn", "fn_conc") else (False,)):
                states.append(dict(key="s_%s_%s_%s_%s_%s%s" % (mode, ret, "ms" if ms else "send", FLK[fl], body, "_mix" if mixed else ""), mode=mode, ret=ret,
                                   maybe_send=ms, flavour=fl, body=body, mixed=mixed))
            if mode in ("trait_self", "trait_ref") and not (mode == "trait_ref" and ret == "generic"):
                # the async method is PROVIDED by the trait (default body) and not overridden by the application
                states.append(dict(key="s_%s_%s_%s_%s_%s_prov" % (mode, ret, "ms" if ms else "send", FLK[fl], body), mode=mode, ret=ret,
                                   maybe_send=ms, flavour=fl, body=body, mixed=False, provided=True))
    return states, len(states) * 2, dict(modes=MODES, returns=list(RETS))


def fn_sig(name, r, first, asy=True, vis="pub "):
    g = "<%s>" % r["g"] if r["g"] else ""
    ps = ", ".join(x for x in [first, r["ps"]] if x)
    return "%s%sfn %s%s(%s) %s" % (vis, "async " if asy else "", name, g, ps, r["ret"])


def body_of(s, val):
    rc = s["body"] == "rc"
    return "{ %srt::yield_once().await; %s%s }" % (RC_PRE if rc else "", RC_POST if rc else "", val)


def render(s):
    key, mode, r = s["key"], s["mode"], RETS[s["ret"]]
    ms = s["maybe_send"]
    at = s["flavour"].startswith("async_trait")
    atattr = "#[%s%s]" % ("super::reexp::async_trait" if s["flavour"] == "async_trait_re" else "::async_trait::async_trait", "(?Send)" if ms else "")
    opt = ", ?Send" if ms else ""
    L = ["mod %s {" % key, "    use super::rt;",
         "    pub trait Dep { fn num(&self) -> &i64; }",
         "    pub struct App { pub num: i64 }",
         "    impl Dep for ::entrait::Impl<App> { fn num(&self) -> &i64 { &self.num } }"]
    call_args = r["args"]
    # a synchronous companion method, declared first: per-method vs per-trait decisions must agree
    mixed = s.get("mixed")
    MIXD = "fn sync_first(&self, k: u8) -> u8; " if mixed else ""
    MIXI = "fn sync_first(&self, k: u8) -> u8 { k } " if mixed else ""
    MIXB = "pub fn sync_first(deps: &impl Dep, k: u8) -> u8 { k } " if mixed else ""
    if mode == "fn":
        L.append("    #[::entrait::entrait(pub Tr%s)]" % opt)
        L.append("    %s %s" % (fn_sig("m", r, "deps: &impl Dep"), body_of(s, r["val"])))
    elif mode == "fn_conc":
        L.append("    pub struct CApp { pub num: i64 }")
        L.append("    impl Dep for CApp { fn num(&self) -> &i64 { &self.num } }")
        L.append("    #[::entrait::entrait(pub Tr%s)]" % opt)
        L.append("    %s %s" % (fn_sig("m", r, "deps: &CApp"), body_of(s, r["val"])))
    elif mode == "mod":
        L.append("    #[::entrait::entrait(pub Tr%s)]" % opt)
        L.append("    pub mod inner { use super::*;")
        L.append("        %s %s" % (fn_sig("m", r, "deps: &impl Dep"), body_of(s, r["val"])))
        L.append("        pub %sfn other(deps: &impl Dep) -> u8 { 1 }" % ("" if s.get("mixed") else "async "))
        L.append("    }")
    elif mode == "trait_self":
        L.append("    #[::entrait::entrait(%s)]" % opt.strip(", "))
        if at:
            L.append("    " + atattr)
        if s.get("provided"):
            # the default body cannot name fields of Self: it goes through a required accessor
            # (a provided body that uses `&self` across an await needs `Self: Sync` for its future to be Send)
            L.append("    pub trait Tr: ::core::marker::Sync { fn num_ref(&self) -> &i64; %s %s }" % (fn_sig("m", r, "&self", vis=""), body_of(s, r["tval"].replace("self.num", "*self.num_ref()").replace("&*self.num_ref()", "self.num_ref()"))))
            if at:
                L.append("    " + atattr)
            L.append("    impl Tr for App { fn num_ref(&self) -> &i64 { &self.num } }")
        else:
            L.append("    pub trait Tr { %s%s; }" % (MIXD, fn_sig("m", r, "&self", vis="")))
            if at:
                L.append("    " + atattr)
            L.append("    impl Tr for App { %s%s %s }" % (MIXI, fn_sig("m", r, "&self", vis=""), body_of(s, r["tval"])))
    elif mode == "trait_ref":
        L.append("    #[::entrait::entrait(delegate_by = ref%s)]" % opt)
        L.append("    " + atattr)
        if s.get("provided"):
            L.append("    pub trait Tr: ::core::marker::Sync + 'static { fn num_ref(&self) -> &i64; %s %s }" % (fn_sig("m", r, "&self", vis=""), body_of(s, r["tval"].replace("self.num", "*self.num_ref()").replace("&*self.num_ref()", "self.num_ref()"))))
            L.append("    pub struct P { pub num: i64 }")
            L.append("    " + atattr)
            L.append("    impl Tr for P { fn num_ref(&self) -> &i64 { &self.num } }")
        else:
            L.append("    pub trait Tr: ::core::marker::Sync + 'static { %s%s; }" % (MIXD, fn_sig("m", r, "&self", vis="")))
            L.append("    pub struct P { pub num: i64 }")
            L.append("    " + atattr)
            L.append("    impl Tr for P { %s%s %s }" % (MIXI, fn_sig("m", r, "&self", vis=""), body_of(s, r["tval"])))
        L.append("    pub struct RApp { pub p: P }")
        L.append("    impl ::core::convert::AsRef<dyn Tr> for RApp { fn as_ref(&self) -> &(dyn Tr + 'static) { &self.p } }")
    else:
        dyn = mode == "dyn_target"
        L.append("    #[::entrait::entrait(TrImpl, delegate_by = %s%s)]" % ("ref" if dyn else "DelegateTr", opt))
        if at:
            L.append("    " + atattr)
        L.append("    pub trait Tr { %s%s; }" % (MIXD, fn_sig("m", r, "&self", vis="")))
        L.append("    pub struct X;")
        L.append("    #[::entrait::entrait%s]" % ("(ref)" if dyn else ""))
        if at:
            L.append("    " + atattr)
        L.append("    impl TrImpl for X { %s%s %s }" % (MIXB, fn_sig("m", r, "deps: &impl Dep"), body_of(s, r["val"])))
        if dyn:
            L.append("    impl ::core::convert::AsRef<dyn TrImpl<Self> + ::core::marker::Sync> for App { fn as_ref(&self) -> &(dyn TrImpl<Self> + ::core::marker::Sync + 'static) { &X } }")
        else:
            L.append("    impl DelegateTr<Self> for App { type Target = X; }")
    app = "::entrait::Impl::new(RApp { p: P { num: 7 } })" if mode == "trait_ref" else "::entrait::Impl::new(CApp { num: 7 })" if mode == "fn_conc" else "::entrait::Impl::new(App { num: 7 })"
    # (type parameters of entraited fns are lifted to the generated trait: `Tr<T>`)
    TR = "Tr<i64>" if (s["ret"] == "generic" and mode in ("fn", "fn_conc", "mod")) else "Tr"
    L.append("    fn declared_send<D: %s>(d: &D) -> bool { let fut = d.m(%s); is_send_val!(fut) }" % (TR, call_args))
    L.append("    pub fn client() {")
    L.append("        let app = %s;" % app)
    L.append("        { let fut = <_ as %s>::m(&app%s); super::output_is::<%s, _>(&fut); }" % (TR, ", " + call_args if call_args else "", r["out"]))
    L.append('        rt::out("send", declared_send(&app));')
    if mixed and mode != "mod":
        L.append('        rt::out("sync", Tr::sync_first(&app, 9));')
    L.append('        rt::out("val", format!("{:?}", rt::block_on(<_ as TRX>::m(&app%s))).replace(\'"\', ""));' % (", " + call_args if call_args else ""))
    L[-1] = L[-1].replace("TRX", TR)
    L += ["    }", "}"]
    return engine.Unit(key, "\n".join(L), 'rt::run("%s", %s::client);' % (key, key), s)


def model(s):
    compiles = not (s["body"] == "rc" and not s["maybe_send"])
    return dict(compiles=compiles, send=not s["maybe_send"], val=RETS[s["ret"]]["exp"])


def structural(s, views):
    """async_trait: async fn kept + attribute re-applied everywhere; native: rewritten to `-> impl Future<Output = R> [+ Send]`."""
    P = []
    at = s["flavour"].startswith("async_trait")
    r = RETS[s["ret"]]
    for v in views:
        if "error" in v:
            continue
        items = list(v["items"])
        for it in list(items):
            if it["k"] == "mod" and it.get("items"):
                items += it["items"]
        for it in items:
            if it["k"] == "trait":
                for f in it["items"]:
                    if f["k"] != "fn" or f["sig"]["ident"] != "m":
                        continue
                    has_at = any("async_trait" in a["path"] for a in it["attrs"])
                    if at:
                        if not f["sig"]["asyncness"]:
                            P.append(("async-fn-not-kept-under-async_trait", "%s::m" % it["ident"]))
                        if not has_at:
                            P.append(("async_trait-not-reapplied:trait", it["ident"]))
                    else:
                        out = (f["sig"]["output"] or "").replace(" ", "")
                        want = ("impl::core::future::Future<Output=%s>" % r["ret"].replace("-> ", "").replace(" ", "") if r["ret"] else "impl::core::future::Future<Output=()>")
                        if f["sig"]["asyncness"] or not out.startswith(want):
                            P.append(("async-rewrite-wrong", "%s::m -> %s" % (it["ident"], f["sig"]["output"])))
                        elif ("::core::marker::Send" in out) != (not s["maybe_send"]):
                            P.append(("send-bound-%s:%s" % ("missing" if not s["maybe_send"] else "present-under-?Send", it["ident"]), f["sig"]["output"]))
            if it["k"] == "impl" and it.get("trait") and at:
                if any(f["k"] == "fn" and f["sig"]["asyncness"] for f in it["items"]) and not any("async_trait" in a["path"] for a in it["attrs"]):
                    P.append(("async_trait-not-reapplied:impl", "impl %s for %s" % (it["trait"], it["self_ty"])))
    return P


def evaluate(states, report, tier):
    units = [render(s) for s in states]
    results, stats = engine.execute(units, feature=False, mode="run", header=HEADER)
    report.phases.append(dict(stats))
    reqs, keys = [], []
    for s in states:
        for j, rec in enumerate(results[s["key"]].records):
            if "output_tt" in rec:
                reqs.append(dict(op="file", tt=rec["output_tt"]))
                keys.append(s["key"])
    views = {}
    for k, v in zip(keys, engine.tokview(reqs)):
        views.setdefault(k, []).append(v)
    for s, u in zip(states, units):
        res = results[s["key"]]
        m = model(s)
        problems, obs = [], {}
        if any("panic" in rec for rec in res.records):
            problems.append(("macro-panic", str([rec.get("panic") for rec in res.records])))
        problems += structural(s, views.get(s["key"], []))
        if not m["compiles"]:
            obs["rejected"] = bool(res.errors)
            if not res.errors:
                problems.append(("non-send-body-accepted", "an Rc is held across an await but the expansion compiled without ?Send"))
            elif not any(("cannot be sent between threads safely" in e["message"] or "cannot be shared between threads" in e["message"]) for e in res.errors):
                problems.append(("rejected-for-another-reason:" + res.compile_sig(s["key"]), "\n".join(res.brief_errors()[:4])))
        elif res.errors:
            problems.append((res.compile_sig(s["key"]), "\n".join(res.brief_errors()[:5])))
        elif res.crashed or "__panic" in res.out:
            problems.append(("client-crash", str(res.crashed or res.out.get("__panic"))))
        else:
            obs["send"] = res.first("send") == "true"
            obs["val"] = res.first("val")
            if obs["send"] != m["send"]:
                problems.append(("declared-send-%s" % ("missing" if m["send"] else "present-under-?Send"),
                                 "in `fn p<D: Tr>(d: &D)` the future returned by d.m() is Send: %s, model says %s" % (obs["send"], m["send"])))
            if s.get("mixed") and s["mode"] != "mod" and res.first("sync") != "9":
                problems.append(("sync-companion", "sync_first(9) = %r" % res.first("sync")))
            if obs["val"] != m["val"]:
                problems.append(("result", "%r, model says %r" % (obs["val"], m["val"])))
        report.observe(s["key"], m, obs if not problems else dict(obs, problems=sorted(set(p[0] for p in problems))), nontrivial=True,
                       sample=dict(source=u.src), evals=4)
        done = set()
        for sig, detail in problems:
            if sig in done:
                continue
            done.add(sig)
            tags = {"mode:" + s["mode"], "ret:" + s["ret"], "maybe_send" if s["maybe_send"] else "send", "flavour:" + s["flavour"], "body:" + s["body"], "mixed" if s.get("mixed") else "all-async", "provided" if s.get("provided") else "required"}
            report.violation(s["key"], tags, sig, detail, state=s, source=engine.standalone_source(u, HEADER), meta=dict(mode="run"))


def run(report, tier):
    states, transitions, bound = enumerate_states(tier)
    report.space(len(states), transitions, bound,
                 "input modes %s x return kinds %s x {default, ?Send} x {native, async_trait} x {clean body, Rc across an await}; "
                 "generic methods pruned for dyn delegation; every state non-trivial" % (MODES, list(RETS)))
    evaluate(states, report, tier)
