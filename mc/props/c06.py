"""C06 - entraited traits: Impl<T> forwards every method to T (Self / ref / Borrow).

State  = (method word over 12 method shapes, selector {default, Self, ref, Borrow}, trait generics, supertrait /
          where clause, async flavour {native, async_trait}).
Model  = each call on Impl<App> produces exactly one event on the provider selected by the selector (its address),
         with the caller's arguments in order, and returns the provider's result (awaited);
         Impl<X>: Trait  <=>  X provides the trait in the selected way and X: Sync (+ 'static) - nothing else.
Impl   = compiled + executed client with a tracing provider; availability probes over a family of X types.
"""
from .. import engine, common, gen

ID = "C06"

# shape -> (generic params of the method, params [(name, type, arg expr, shown expr)], return type, result expr, async, dyn-compatible, needs trait generic)
SHAPES = {
    "n0": dict(g="", ps=[], ret="i64", res="7", show_res="{}"),
    "a1": dict(g="", ps=[("a", "i64", "11", "a")], ret="i64", res="a + 1"),
    "a2": dict(g="", ps=[("a", "i64", "11", "a"), ("b", "i64", "12", "b")], ret="i64", res="a * 100 + b"),
    # like a2, but the trait is stamped out by macro_rules and the two parameters are spelled identically (hygiene)
    "h2": dict(g="", ps=[("$p", "i64", "11", "a"), ("a", "i64", "12", "b")], ret="i64", res="a * 100 + b", stamped=True),
    # provided methods: the provider overrides them, Impl<T> must still forward (not run the default body)
    "df": dict(g="", ps=[("a", "i64", "11", "a")], ret="i64", res="a + 1", default="-1"),
    "dfs": dict(g="", ps=[("a", "i64", "11", "a")], ret="i64", res="a + 1", default="-1", where="where Self: Sized", dyn=False),
    # provided method whose parameters are patterns (destructuring first, then a `ref` binding)
    "pt": dict(g="", ps=[("(w, h)", "(i64, i64)", "(11, 12)", "w"), ("ref lab", "i64", "13", "lab")], ret="i64", res="w * 100 + lab",
               default="w + h + *lab", plain=[("wh", "(i64, i64)"), ("lab", "i64")], show=["wh.0", "lab"]),
    # like a1, but the trait is stamped out by macro_rules and the METHOD NAME is a macro argument (`&self` is written in the macro body)
    "hm": dict(g="", ps=[("a", "i64", "11", "a")], ret="i64", res="a + 1", stamped=True, name_from_macro=True),
    # qualifiers on trait methods are part of the signature that is mirrored
    "um": dict(g="", ps=[("a", "i64", "11", "a")], ret="i64", res="a + 1", qual="unsafe "),
    "em": dict(g="", ps=[("a", "i64", "11", "a")], ret="i64", res="a + 1", qual='extern "C" '),
    "s2": dict(g="", ps=[("a", "&str", '"s11"', "a"), ("b", "i64", "12", "b")], ret="String", res='format!("{}-{}", a, b)'),
    "bor": dict(g="<'x>", recv="&'x self", ps=[("a", "&'x str", '"s11"', "a")], ret="&'x str", res="a"),
    # the typed spelling of `&self`
    "tr": dict(g="", recv="self: &Self", ps=[("a", "i64", "11", "a")], ret="i64", res="a + 1"),
    "slf": dict(g="", ps=[], ret="&str", res="self.name()"),
    "gen": dict(g="", ps=[("g", "G", "11i64", "g")], ret="G", res="g", needs_g=True),
    "gm": dict(g="<Y: Clone + ::core::fmt::Display>", ps=[("y", "Y", "11u8", "y")], ret="Y", res="y", dyn=False),
    "gmc": dict(g="<const M: usize, Y: Clone + ::core::fmt::Display>", ps=[("y", "[Y; M]", "[11u8; 2]", "y[0]")], ret="Y", res="y[0].clone()", dyn=False),
    # a method type parameter that nothing in the arguments mentions: the caller names it, the delegation has to pass it on
    "gu": dict(g="<U: ::core::default::Default + ::core::fmt::Display>", ps=[("a", "i64", "11", "a")], ret="String", res='format!("{}{}", U::default(), a)',
               dyn=False, call_generics="::<u8>"),
    "xa1": dict(g="", ps=[("a", "i64", "11", "a")], ret="i64", res="a + 1", asy=True),
    "xa2": dict(g="", ps=[("a", "i64", "11", "a"), ("b", "i64", "12", "b")], ret="i64", res="a * 100 + b", asy=True),
    "xs": dict(g="", ps=[("a", "&str", '"s11"', "a")], ret="usize", res="a.len()", asy=True),
    "xu": dict(g="", ps=[], ret="()", res="()", asy=True),
}
SHAPE_ORDER = list(SHAPES)
SELECTORS = ["default", "self", "ref", "borrow"]
SUPERS = ["", ": 'static", "where"]


def enumerate_states(tier):
    maxlen = 3 if tier == "thorough" else 2
    words, transitions = common.words(SHAPE_ORDER, maxlen, minlen=1)
    states = []
    for w in words:
        asy = any(SHAPES[x].get("asy") for x in w)
        needs_g = any(SHAPES[x].get("needs_g") for x in w)
        dyn_ok = all(SHAPES[x].get("dyn", True) for x in w)
        for sel in SELECTORS:
            for generic in (False, True, "bd", "cn"):
                if needs_g and not generic:
                    continue
                if generic in ("bd", "cn") and tier != "thorough" and len(w) == 2:
                    continue
                for sup in SUPERS:
                    if tier != "thorough" and len(w) == 2 and sup == "where":
                        continue
                    for flavour in (("native", "async_trait") if asy else ("native",)):
                        if sel in ("ref", "borrow"):
                            if not dyn_ok:
                                continue       # generic methods: not dyn-compatible, outside the supported class for dyn delegation
                            if asy and flavour == "native":
                                continue       # native async fn in traits is not dyn-compatible
                        key = "t_%s_%s_%s_%s_%s" % ("_".join(w), sel, {False: "n", True: "g", "bd": "gbd", "cn": "gcn"}[generic], {"": "x", ": 'static": "st", "where": "wh"}[sup],
                                                    "at" if flavour == "async_trait" else "na")
                        states.append(dict(key=key, word=list(w), sel=sel, generic=generic, sup=sup, flavour=flavour))
    return states, len(states), dict(method_shapes=len(SHAPES), word_len=maxlen, selectors=SELECTORS)


def method_decl(shape, name, body=None, asy_kw=True, in_trait=False):
    d = SHAPES[shape]
    recv = d.get("recv", "&self")
    plist = d["ps"] if (in_trait or "plain" not in d) else d["plain"]
    ps = ", ".join([recv] + ["%s: %s" % (p[0], p[1]) for p in plist])
    ret = "" if d["ret"] == "()" else " -> " + d["ret"]
    head = "%s%sfn %s%s(%s)%s %s" % ("async " if d.get("asy") else "", d.get("qual", ""), name, d["g"], ps, ret, d.get("where", ""))
    if in_trait and d.get("default") is not None:
        return head + " { " + d["default"] + " }"
    return head + (";" if body is None else " { " + body + " }")


def render(s):
    key = s["key"]
    w = s["word"]
    # (dyn delegation of a generic trait needs `G: 'static`: the default object lifetime of `dyn Tr<G>` demands it)
    G = ("<G: 'static>" if s["sel"] in ("ref", "borrow") else "<G>") if s["generic"] else ""
    if s["generic"] == "cn":
        # a const parameter declared BEFORE the type parameter: generic arguments are positional
        G = "<const N: usize, G: 'static>"
    if s["generic"] == "bd":
        # a type parameter with an inline bound AND a default
        G = "<G: ::core::clone::Clone + ::core::convert::Into<i64> + 'static = i64>"
    GA = ("<2, i64>" if s["generic"] == "cn" else "<i64>") if s["generic"] else ""
    asy = any(SHAPES[x].get("asy") for x in w)
    at = "#[::async_trait::async_trait]" if s["flavour"] == "async_trait" else ""
    attr = {"default": "", "self": "delegate_by = Self", "ref": "delegate_by = ref", "borrow": "delegate_by = Borrow"}[s["sel"]]
    dynsel = s["sel"] in ("ref", "borrow")
    sup = s["sup"]
    if sup == "where":
        head = "pub trait Tr%s where u8: Copy" % G + (", G: ::core::clone::Clone" if s["generic"] else "")
    elif dynsel and asy:
        head = "pub trait Tr%s: ::core::marker::Sync + 'static" % G
    else:
        head = "pub trait Tr%s%s" % (G, sup)
    L = ["mod %s {" % key, "    use super::rt;"]
    stamped = any(SHAPES[x].get("stamped") for x in w)
    if stamped:
        L.append("    macro_rules! stamp { ($p:ident%s) => {" % "".join(", $n%d:ident" % i for i in range(len(w))))
    L.append("    #[::entrait::entrait(%s)]" % attr)
    if at:
        L.append("    " + at)
    L.append("    %s {" % head)
    L.append("        fn name(&self) -> &str;")
    for i, x in enumerate(w):
        L.append("        " + method_decl(x, "$n%d" % i if SHAPES[x].get("name_from_macro") else "m%d" % i, in_trait=True))
    L.append("    }")
    if stamped:
        L.append("    } }")
        L.append("    stamp!(a%s);" % "".join(", m%d" % i for i in range(len(w))))
    # tracing provider
    L.append("    pub struct P(pub &'static str);")
    if at:
        L.append("    " + at)
    L.append("    impl Tr%s for P {" % GA)
    L.append("        fn name(&self) -> &str { self.0 }")
    for i, x in enumerate(w):
        d = SHAPES[x]
        shows = d.get("show") or [p[3] for p in d["ps"]]
        ev = "rt::ev(%s);" % gen.fmt_call("P.m%d|{:x}" % i if False else "P.m%d" % i, ['format!("{:x}", rt::addr(self))'] + shows)
        pre = "rt::yield_once().await; " if d.get("asy") else ""
        res = d["res"].replace("w * 100", "wh.0 * 100") if "plain" in d else d["res"]
        decl = method_decl(x, "m%d" % i, pre + ev + " " + res).replace("$p:", "a:").replace(", a: i64)", ", b: i64)") if (d.get("stamped") and not d.get("name_from_macro")) else method_decl(x, "m%d" % i, pre + ev + " " + res)
        if s["generic"]:
            decl = decl.replace(": G", ": i64").replace("-> G", "-> i64")
        L.append("        " + decl)
    L.append("    }")
    # application types
    dyn = "dyn Tr%s" % GA
    if s["sel"] in ("default", "self"):
        L.append("    pub type App = P;")
        mk, prov = 'P("prov")', "&*app"
    elif s["sel"] == "ref":
        L.append("    pub struct App(pub P);")
        L.append("    impl ::core::convert::AsRef<%s> for App { fn as_ref(&self) -> &(%s + 'static) { &self.0 } }" % (dyn, dyn))
        mk, prov = 'App(P("prov"))', "&app.0"
    else:
        L.append("    pub struct App(pub P);")
        L.append("    impl ::core::borrow::Borrow<%s> for App { fn borrow(&self) -> &(%s + 'static) { &self.0 } }" % (dyn, dyn))
        mk, prov = 'App(P("prov"))', "&app.0"
    # availability probe family
    L.append("    pub struct XNone;")
    L.append("    pub struct XSelfBare(pub rt::BareMarker); pub struct XSelfNotSync(pub rt::NotSyncMarker);")
    notsync = not asy    # a !Sync type cannot implement a trait whose futures must be Send (they hold &self)
    for t in (("XSelfBare", "XSelfNotSync") if notsync else ("XSelfBare",)):
        if at:
            L.append("    " + at)
        L.append("    impl Tr%s for %s {" % (GA, t))
        L.append('        fn name(&self) -> &str { "x" }')
        for i, x in enumerate(w):
            d = SHAPES[x]
            body = d["res"].replace("w * 100", "wh.0 * 100") if "plain" in d else d["res"]
            decl = method_decl(x, "m%d" % i, body)
            if d.get("stamped") and not d.get("name_from_macro"):
                decl = decl.replace("$p:", "a:").replace(", a: i64)", ", b: i64)")
            if s["generic"]:
                decl = decl.replace(": G", ": i64").replace("-> G", "-> i64")
            L.append("        " + decl)
        L.append("    }")
    L.append("    pub struct XRefBare(pub P, pub rt::BareMarker); pub struct XRefNotSync(pub P, pub rt::NotSyncMarker);")
    L.append("    pub struct XBorrowBare(pub P, pub rt::BareMarker);")
    if dynsel or True:
        try_dyn = all(SHAPES[x].get("dyn", True) for x in w) and not (asy and s["flavour"] == "native")
        if try_dyn:
            for t in (("XRefBare", "XRefNotSync") if notsync else ("XRefBare",)):
                L.append("    impl ::core::convert::AsRef<%s> for %s { fn as_ref(&self) -> &(%s + 'static) { &self.0 } }" % (dyn, t, dyn))
            L.append("    impl ::core::borrow::Borrow<%s> for XBorrowBare { fn borrow(&self) -> &(%s + 'static) { &self.0 } }" % (dyn, dyn))
    L.append("    #[deny(unused_unsafe)] pub fn client() {")
    L.append("        let app = ::entrait::Impl::new(%s);" % mk)
    L.append('        rt::out("prov", format!("{:x}", rt::addr(%s)));' % prov)
    for i, x in enumerate(w):
        d = SHAPES[x]
        args = ", ".join(["&app"] + [p[2] for p in d["ps"]])
        call = "<::entrait::Impl<App> as Tr%s>::m%d%s(%s)" % (GA, i, d.get("call_generics", ""), args)
        if "unsafe" in d.get("qual", ""):
            call = "unsafe { %s }" % call
        if d.get("asy"):
            call = "rt::block_on(%s)" % call
        fmt = "{:?}" if d["ret"] == "()" else "{}"
        L.append('        { let r = %s; rt::out("m%d", format!("{}##%s", rt::take(), r)); }' % (call, i, fmt))
    probes = ["XNone", "XSelfBare", "XSelfNotSync", "XRefBare", "XRefNotSync", "XBorrowBare"]
    L.append('        rt::out("avail", [%s].iter().map(|b| if *b { "1" } else { "0" }).collect::<String>());'
             % ", ".join("implements!(::entrait::Impl<%s>: Tr%s)" % (t, GA) for t in probes))
    L += ["    }", "}"]
    return engine.Unit(key, "\n".join(L), 'rt::run("%s", %s::client);' % (key, key), s)


def model(s):
    w = s["word"]
    asy = any(SHAPES[x].get("asy") for x in w)
    exp = {}
    for i, x in enumerate(w):
        d = SHAPES[x]
        shown = {"11": "11", "12": "12", "13": "13", '"s11"': "s11", "11i64": "11", "11u8": "11", "[11u8; 2]": "11", "(11, 12)": "11"}
        args = [shown[p[2]] for p in d["ps"]]
        res = {"n0": "7", "a1": "12", "tr": "12", "gmc": "11", "gu": "011", "a2": "1112", "h2": "1112", "df": "12", "dfs": "12", "pt": "1113", "um": "12", "em": "12", "hm": "12", "s2": "s11-12", "bor": "s11", "slf": "prov", "gen": "11", "gm": "11",
               "xa1": "12", "xa2": "1112", "xs": "3", "xu": "()"}[x]
        exp["m%d" % i] = dict(trace_tail="|".join(args), result=res)
    try_dyn = all(SHAPES[x].get("dyn", True) for x in w) and not (asy and s["flavour"] == "native")
    sel = s["sel"]
    # XNone, XSelfBare, XSelfNotSync, XRefBare, XRefNotSync, XBorrowBare
    if sel in ("default", "self"):
        avail = "010000"
    elif sel == "ref":
        avail = "000100"
    else:
        avail = "000001"
    return dict(calls=exp, avail=avail)


def evaluate(states, report, tier):
    units = [render(s) for s in states]
    results, stats = engine.execute(units, feature=False, mode="run")
    report.phases.append(dict(stats))
    for s, u in zip(states, units):
        res = results[s["key"]]
        m = model(s)
        problems = []
        obs = {}
        if any("panic" in r for r in res.records):
            problems.append(("macro-panic", str([r.get("panic") for r in res.records])))
        elif res.errors:
            problems.append((res.compile_sig(s["key"]), "\n".join(res.brief_errors()[:5])))
        elif res.crashed or "__panic" in res.out:
            problems.append(("client-crash", str(res.crashed or res.out.get("__panic"))))
        else:
            prov = res.first("prov")
            for name, e in m["calls"].items():
                got = res.first(name, "")
                trace, _, result = got.partition("##")
                want_trace = "P.%s|%s" % (name, prov) + ("|" + e["trace_tail"] if e["trace_tail"] else "")
                obs[name] = [trace.replace(prov, "<prov>"), result]
                if trace != want_trace:
                    events = trace.split(";") if trace else []
                    sig = "trace:%d-events" % len(events) if len(events) != 1 else \
                        "trace:wrong-method" if not trace.startswith("P.%s|" % name) else \
                        "trace:wrong-provider" if trace.split("|")[1] != prov else "trace:wrong-arguments"
                    problems.append((sig, "%s: trace %r, model says %r" % (name, trace, want_trace)))
                if result != e["result"]:
                    problems.append(("result", "%s: %r, model says %r" % (name, result, e["result"])))
            obs["avail"] = res.first("avail")
            if obs["avail"] != m["avail"]:
                names = ["XNone", "XSelfBare(Sync only)", "XSelfNotSync", "XRefBare(Sync only)", "XRefNotSync", "XBorrowBare(Sync only)"]
                diffs = ["Impl<%s>: Tr is %s, model says %s" % (n, g, w_) for n, g, w_ in zip(names, obs["avail"] or "", m["avail"]) if g != w_]
                added = any("is 0" in d for d in diffs)
                problems.append(("availability:" + ("requirement-added" if added else "too-wide"), "; ".join(diffs)))
        report.observe(s["key"], m, obs if not problems else dict(obs, problems=sorted(set(p[0] for p in problems))), nontrivial=True,
                       sample=dict(source=u.src), evals=len(s["word"]) * 2 + 6)
        done = set()
        for sig, detail in problems:
            if sig in done:
                continue
            done.add(sig)
            tags = {"sel:" + s["sel"], ("generic-bounded-default" if s["generic"] == "bd" else "generic") if s["generic"] else "nongeneric", "flavour:" + s["flavour"], "sup:" + (s["sup"] or "none")} | \
                {"shape:" + x for x in s["word"]}
            if any(SHAPES[x].get("asy") for x in s["word"]):
                tags.add("async")
            report.violation(s["key"], tags, sig, detail, state=s, source=engine.standalone_source(u), meta=dict(mode="run"))


def run(report, tier):
    states, transitions, bound = enumerate_states(tier)
    report.space(len(states), transitions, bound,
                 "BFS over method words (shapes %s) x selector x generic trait x supertrait/where x async flavour; traits that are not dyn-compatible "
                 "are pruned for ref/Borrow (outside the supported class); every state non-trivial" % SHAPE_ORDER)
    common.evaluate_chunked(evaluate, states, report, tier)
