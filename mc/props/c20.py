"""C20 - expansion is a pure function of (attribute, item).

Histories: every sequence (with repetition) of representative invocations up to a length bound is
expanded inside ONE compiler process (so anything the proc-macro keeps between invocations - statics,
caches, counters - is carried along); the record of invocation v at any position of any history must
equal the record of v expanded alone (initial state vs every reachable non-initial state).
Environment alphabet: the whole corpus is also expanded under changed environment variables / cwd,
16 processes concurrently, and in R fresh processes (the only *sampled* dimension: std's hash seed).
"""
import concurrent.futures
import itertools
import json
import os
import subprocess

from .. import engine, common

ID = "C20"

V = {
    "plain": '#[::entrait::entrait(A0)]\nfn a0(deps: &impl ::core::any::Any, x: i64) -> i64 { x }',
    "argn": 'pub struct N(pub i64);\n#[::entrait::entrait(A1)]\nfn a1(deps: &impl ::core::any::Any, _: i64, (p, q): (i64, i64), N(arg1): N, _: u8, arg4: u8, _: u16) {}',
    "module": '#[::entrait::entrait(pub A2)]\npub mod m2 {\n    pub fn x(deps: &impl ::core::any::Any) {}\n    pub struct S;\n    fn private() {}\n    pub async fn y<T: Send>(deps: &impl ::core::any::Any, _: T, _: T) {}\n    pub(crate) fn z(deps: &impl ::core::any::Any, a: &str) -> &str { a }\n}',
    "traitref": '#[::entrait::entrait(delegate_by = ref)]\npub trait A3 { fn m(&self, a: i64) -> i64; async fn n(&self); }',
    "traitimpl": '#[::entrait::entrait(A4Impl, delegate_by = DelegateA4)]\npub trait A4 { fn m(&self, a: i64, b: i64) -> i64; }',
    "implblock": 'pub struct X5;\n#[::entrait::entrait]\nimpl A4Impl for X5 {\n    fn m(deps: &impl ::core::any::Any, a: i64, b: i64) -> i64 { a - b }\n}',
    "concrete": 'pub struct Cfg;\n#[::entrait::entrait(A6)]\nfn a6(cfg: &Cfg, x: i64) -> i64 { x }',
    "mocks": '#[::entrait::entrait_export(pub A7, mock_api = A7Mock, unimock, mockall, ?Send)]\npub async fn a7<D: ::core::any::Any>(deps: &D, (a, b): (i64, i64), a7: i64) -> i64 where D: Sync { a7 }',
    "multibound": 'pub trait B0 {} pub trait B1 {} pub trait B2 {} pub trait B3 {}\n#[::entrait::entrait(pub A8)]\npub mod m8 {\n    use super::*;\n    pub fn a(deps: &(impl B0 + B1 + B3)) {}\n    pub fn b(deps: &(impl B1 + B2 + B0)) {}\n    pub fn c<D: B3 + B2>(deps: &D) where D: B0 + B3 {}\n}',
    "mocks_gated": '#[::entrait::entrait(pub A11, mock_api = A11Mock, unimock, mockall)]\npub fn a11(deps: &impl ::core::any::Any, x: i64) -> i64 { x }',
    "borrow": '#[::entrait::entrait(delegate_by = Borrow)]\npub trait A10 { fn m(&self, a: i64) -> i64; }',
    # options that have no effect on the item they are given for (nothing async here)
    "noop_opts": '#[::entrait::entrait(A12, ?Send)]\nfn a12(deps: &impl ::core::any::Any, x: i64) -> i64 { x }\n#[::entrait::entrait(pub A13, ?Send, mockall = false, unimock = false)]\npub mod m13 {\n    pub fn x(deps: &impl ::core::any::Any) {}\n}',
    "debug": '#[::entrait::entrait(A14, debug)]\nfn a14(deps: &impl ::core::any::Any, x: i64) -> i64 { x }',
    # functions of one module repeating their (several) where-predicates on a shared type parameter
    "where_dup": '#[::entrait::entrait(pub A15)]\npub mod m15 {\n    pub fn a<T>(deps: &impl ::core::any::Any, t: T) where T: ::core::fmt::Display, T: ::core::fmt::Debug, T: Clone, T: Send {}\n    pub fn b<T>(deps: &impl ::core::any::Any, t: T) where T: ::core::fmt::Display, T: ::core::fmt::Debug, T: Clone, T: Send {}\n}',
    # a DYNAMIC delegation whose target trait is named like the static one of "traitimpl" (the impl block of "implblock" belongs to that one)
    "traitimpl_dyn_same_name": 'pub mod other {\n#[::entrait::entrait(A4Impl, delegate_by = ref)]\npub trait A4d { fn m(&self, a: i64, b: i64) -> i64; }\n}',
    # two functions with token-identical parameter lists; only in the first is a parameter named like the function
    "same_params_a": '#[::entrait::entrait(A16)]\nfn limit(deps: &impl ::core::any::Any, limit: i64, value: i64) -> i64 { limit.min(value) }',
    "same_params_b": '#[::entrait::entrait(A17)]\nfn at_most(deps: &impl ::core::any::Any, limit: i64, value: i64) -> i64 { limit.min(value) }',
    "rename": '#[::entrait::entrait(A9)]\nfn a9(deps: &impl ::core::any::Any, a9: i64, a9_: i64, a9__: i64, (u, v): (u8, u8)) {}',
}
VN = list(V)
ENVS = {
    "default": {},
    "backtrace": {"RUST_BACKTRACE": "1"},
    "locale_tz": {"LANG": "tr_TR.UTF-8", "LC_ALL": "C", "TZ": "Pacific/Kiritimati"},
    "no_home": {"HOME": None, "USER": None},
    "epoch": {"SOURCE_DATE_EPOCH": "1", "RUSTC_BOOTSTRAP": "0"},
    "other_cwd": {"__cwd": "sub/dir"},
    # variables that build tools / CI / docs.rs set
    "build_env": {"DOCS_RS": "1", "CI": "true", "PROFILE": "release", "DEBUG": "false", "OPT_LEVEL": "3", "CARGO_CFG_TEST": "1",
                  "CARGO_FEATURE_UNIMOCK": "1", "CARGO_PKG_NAME": "x", "CARGO_PRIMARY_PACKAGE": "1", "RUST_LOG": "trace", "NO_COLOR": "1",
                  "TERM": "dumb", "ENTRAIT_DEBUG": "1", "CARGO_ENCODED_RUSTFLAGS": "--cfg\x1ftest"},
    # what a build script would see for another target
    "other_target": {"CARGO_CFG_TARGET_ARCH": "wasm32", "CARGO_CFG_TARGET_OS": "unknown", "CARGO_CFG_TARGET_FAMILY": "wasm", "CARGO_CFG_TARGET_POINTER_WIDTH": "32",
                     "CARGO_CFG_PANIC": "abort", "CARGO_CFG_TARGET_FEATURE": "atomics", "CARGO_CFG_UNIX": None, "TARGET": "wasm32-unknown-unknown",
                     "HOST": "x86_64-unknown-linux-gnu", "RUSTFLAGS": "-C target-feature=+atomics", "CARGO_BUILD_TARGET": "wasm32-unknown-unknown"},
}


def enumerate_states(tier):
    maxlen = 4 if tier == "thorough" else 3
    words, transitions = common.words(VN, maxlen, minlen=1)
    states = [dict(key="h_" + "_".join(w), kind="history", word=list(w)) for w in words]
    if tier == "thorough":
        for perm in itertools.permutations(VN[:6]):
            k = "h_" + "_".join(perm)
            states.append(dict(key=k, kind="history", word=list(perm)))
            transitions += 6
    repeats = 256 if tier == "thorough" else 16
    for name in ENVS:
        for par in ("alone", "concurrent16"):
            states.append(dict(key="env_%s_%s" % (name, par), kind="env", env=name, par=par))
            transitions += 1
    states.append(dict(key="fresh_processes", kind="fresh", repeats=repeats))
    transitions += repeats
    return states, transitions, dict(invocation_alphabet=len(VN), history_len=maxlen, fresh_processes=repeats,
                                     environments=list(ENVS))


def history_source(word):
    """-> (source text, [(first line, last line)] per position)"""
    lines = ["#![allow(warnings)]"]
    ranges = []
    for i, v in enumerate(word):
        first = len(lines) + 1
        lines.append("mod p%d {" % i)
        lines += V[v].split("\n")
        lines.append("}")
        ranges.append((first, len(lines)))
    lines.append("fn main() {}")
    return "\n".join(lines) + "\n", ranges


def strip(rec):
    return json.dumps([rec.get("variant"), rec.get("attr_tt"), rec.get("input_tt"), rec.get("output_tt"), rec.get("panic")])


def expand(art, path, dump, env_over=None, cwd=None):
    env = dict(os.environ)
    for k, val in (env_over or {}).items():
        if k.startswith("__"):
            continue
        if val is None:
            env.pop(k, None)
        else:
            env[k] = val
    env["ENTRAIT_VERIF_DUMP"] = dump
    if os.path.exists(dump):
        os.remove(dump)
    cmd = engine.rustc_cmd(art, path, dump + ".rmeta", "metadata", False)
    subprocess.run(cmd, cwd=cwd or os.path.dirname(path), env=env, stdout=subprocess.DEVNULL, stderr=subprocess.DEVNULL)
    recs = []
    if os.path.exists(dump):
        with open(dump) as f:
            recs = [json.loads(l) for l in f if l.strip()]
    return recs


def evaluate(states, report, tier):
    art = engine.build_subject(False)
    with engine.Workdir() as wd:
        os.makedirs(os.path.join(wd, "sub", "dir"), exist_ok=True)

        # ---- baselines: every invocation alone, in its own process
        base = {}
        for v in VN:
            src, ranges = history_source([v])
            p = os.path.join(wd, "base_%s.rs" % v)
            open(p, "w").write(src)
            recs = expand(art, p, os.path.join(wd, "base_%s.dump" % v))
            if not recs:
                raise engine.MachineryError("no recorder output for baseline " + v)
            if any("panic" in r for r in recs):
                raise engine.MachineryError("baseline invocation %s panics: %s" % (v, recs))
            base[v] = [strip(r) for r in recs]

        def run_history(s):
            src, ranges = history_source(s["word"])
            p = os.path.join(wd, s["key"][:150] + ".rs")
            open(p, "w").write(src)
            recs = expand(art, p, p + ".dump")
            per = [[] for _ in s["word"]]
            for r in recs:
                for i, (a, b) in enumerate(ranges):
                    if a <= r.get("line", -1) <= b:
                        per[i].append(strip(r))
                        break
                else:
                    raise engine.MachineryError("record not attributable in history " + s["key"])
            os.remove(p)
            return per, src

        hist = [s for s in states if s["kind"] == "history"]
        with concurrent.futures.ThreadPoolExecutor(engine.JOBS) as ex:
            outs = list(ex.map(run_history, hist))
        for s, (per, src) in zip(hist, outs):
            bad = [(i, v) for i, v in enumerate(s["word"]) if per[i] != base[v]]
            observed = dict(records=[len(x) for x in per], equal_to_alone=not bad)
            report.observe(s["key"], dict(equal_to_alone=True), observed, nontrivial=len(s["word"]) > 1,
                           sample=dict(history=s["word"], source=src), evals=len(s["word"]))
            for i, v in bad:
                report.violation(s["key"], {"kind:history", "inv:" + v, "pos:%d" % i}, "history-dependent:" + v,
                                 "invocation `%s` at position %d of history %s expands differently from the same invocation alone:\n%s\n  vs alone\n%s"
                                 % (v, i, s["word"], "\n".join(per[i])[:1500], "\n".join(base[v])[:1500]),
                                 state=s, source=src, meta=dict(mode="expand"))

        # ---- corpus: all invocations in one crate, twice each (in both orders)
        corpus_src, ranges = history_source(VN + VN[::-1])
        cpath = os.path.join(wd, "corpus.rs")
        open(cpath, "w").write(corpus_src)
        ref = [strip(r) for r in expand(art, cpath, os.path.join(wd, "corpus.ref.dump"))]
        if len(ref) < 2 * len(VN):
            raise engine.MachineryError("corpus produced %d records" % len(ref))

        def corpus_run(tag, env_over, cwd):
            return [strip(r) for r in expand(art, cpath, os.path.join(wd, "corpus.%s.dump" % tag), env_over, cwd)]

        for s in [x for x in states if x["kind"] == "env"]:
            env_over = ENVS[s["env"]]
            cwd = os.path.join(wd, env_over["__cwd"]) if "__cwd" in env_over else None
            n = 16 if s["par"] == "concurrent16" else 1
            with concurrent.futures.ThreadPoolExecutor(n) as ex:
                runs = list(ex.map(lambda i: corpus_run("%s.%s.%d" % (s["env"], s["par"], i), env_over, cwd), range(n)))
            diff = [i for i, r in enumerate(runs) if r != ref]
            report.observe(s["key"], dict(equal=True), dict(equal=not diff, processes=n), nontrivial=True,
                           sample=dict(env=s["env"], mode=s["par"], records=len(ref)), evals=n)
            if diff:
                k = diff[0]
                j = next((i for i, (a, b) in enumerate(zip(runs[k], ref)) if a != b), min(len(runs[k]), len(ref)))
                report.violation(s["key"], {"kind:env", "env:" + s["env"], s["par"]}, "environment-dependent",
                                 "corpus expansion under env %s (%s) differs from the reference at record %d:\n%s\n  vs\n%s"
                                 % (s["env"], s["par"], j, (runs[k][j:j + 1] or ["<missing>"])[0][:1200], (ref[j:j + 1] or ["<missing>"])[0][:1200]),
                                 state=s, source=corpus_src, meta=dict(mode="expand", env=env_over))
        for s in [x for x in states if x["kind"] == "fresh"]:
            with concurrent.futures.ThreadPoolExecutor(engine.JOBS) as ex:
                runs = list(ex.map(lambda i: corpus_run("fresh.%d" % i, {}, None), range(s["repeats"])))
            diff = [i for i, r in enumerate(runs) if r != ref]
            report.observe(s["key"], dict(equal=True), dict(equal=not diff, processes=s["repeats"]), nontrivial=True,
                           sample=dict(fresh_processes=s["repeats"]), evals=s["repeats"])
            report.extra["hash_seeds_sampled"] = s["repeats"]
            if diff:
                report.violation(s["key"], {"kind:fresh"}, "process-dependent",
                                 "%d of %d fresh compiler processes expanded the corpus differently" % (len(diff), s["repeats"]),
                                 state=s, source=corpus_src, meta=dict(mode="expand"))


def run(report, tier):
    states, transitions, bound = enumerate_states(tier)
    report.space(len(states), transitions, bound,
                 "every sequence with repetition over %d representative invocations up to the length bound, one compiler process "
                 "per history; plus the corpus under each environment (alone / 16 concurrent) and in fresh processes; "
                 "non-trivial = history of length >= 2 or an environment run" % len(VN))
    report.assumptions += ["std RandomState seeds are not owned by the harness: seed independence is SAMPLED by the fresh-process "
                           "runs (coverage.hash_seeds_sampled) and is outside the `exhaustive` claim"]
    evaluate(states, report, tier)
