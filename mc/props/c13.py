"""C13 - generated traits have exactly the requested visibility.

State  = (input mode, requested visibility, the item's own visibility, probe scope, path used).
Module tree per state:   crate -> key -> mid -> def (defining scope), probes live in def / mid / key / crate root,
and (for pub vs pub(crate)) in a second crate.
Model  = Rust's visibility lattice: a scope may name the trait iff it lies inside the requested visibility.
Impl   = one probe per unit: it must compile where the model allows it and must be rejected with a privacy
         error (E0603 / E0624 / E0365-family) where it does not; plus the visibility tokens of the emitted
         trait / re-export in the recorded expansion.
"""
import os
import subprocess

from .. import engine, common

ID = "C13"

ANY = "&impl ::core::any::Any"
SCOPES = ["def", "mid", "key", "root", "other_crate"]
# how far a visibility reaches, as the index of the outermost scope that may name the item
REACH = {"": 0, "pub(self)": 0, "pub(in self)": 0, "pub(super)": 1, "pub(in super)": 1, "pub(in crate::KEY)": 2, "pub(in super::super)": 2,
         "pub(crate)": 3, "pub(in super::super::super)": 3, "pub": 4}


def enumerate_states(tier):
    progs = []
    for req in ["", "pub", "pub(crate)", "pub(super)", "pub(in crate::KEY)", "pub(self)", "pub(in self)", "pub(in super)", "pub(in super::super)",
                "pub(in super::super::super)"]:
        for fnvis in ["", "pub", "pub(crate)"]:
            if fnvis == "pub(crate)" and "in s" in req:
                continue
            progs.append(dict(mode="fn", req=req, itemvis=fnvis))
        # visibility is independent of the other options: exporting mocks must not widen the trait
        progs.append(dict(mode="fn", req=req, itemvis="pub", opts="export"))
        progs.append(dict(mode="fn", req=req, itemvis="", opts="export_mock"))
    for req in ["", "pub", "pub(crate)", "pub(in crate::KEY)", "pub(self)", "pub(super)", "pub(in super::super)", "pub(in self)", "pub(in super)"]:
        for modvis in ["", "pub"]:
            for fnvis in ["pub", "pub(crate)"]:
                progs.append(dict(mode="mod", req=req, itemvis=modvis, fnvis=fnvis))
            progs.append(dict(mode="mod", req=req, itemvis=modvis, fnvis="pub", opts="export"))
    for tvis in ["", "pub", "pub(crate)", "pub(super)", "pub(in super::super)"]:
        for deleg in ["static", "ref"]:
            for attrvis in ["", "pub"]:
                progs.append(dict(mode="trait", req=tvis, itemvis=attrvis, deleg=deleg))
        # the selector trait generated for static delegation (`DelegateTr`) follows the original trait too
        progs.append(dict(mode="trait", req=tvis, itemvis="", deleg="static", probe="selector"))
    states = []
    for pi, p in enumerate(progs):
        paths = ["reexport", "inner"] if p["mode"] == "mod" else ["direct"]
        for path in paths:
            for scope in SCOPES:
                key = "v%02d_%s_%s_%s" % (pi, p["mode"], path, scope)
                states.append(dict(p, key=key, scope=scope, path=path, prog=pi))
    return states, len(states), dict(programs=len(progs), scopes=SCOPES)


def target_name(s):
    if s.get("probe") == "selector":
        return "DelegateTr"
    return "TrImpl" if s["mode"] == "trait" else "Tr"


def model(s):
    """May `scope` name the trait through `path`?"""
    si = SCOPES.index(s["scope"])
    req = s["req"]
    if s["mode"] == "fn" or s["mode"] == "trait":
        return si <= REACH[req]
    # module mode
    if s["path"] == "reexport":
        return si <= REACH[req]
    # path through the module itself: the module must be nameable, then the trait inside it
    mod_reach = 4 if s["itemvis"] == "pub" else 0
    trait_reach = REACH[req] if req else 0     # private request: `pub(super)` inside the module == the defining scope
    return si <= min(mod_reach, trait_reach)


def program_src(p, key):
    """Items placed in the defining scope `def`."""
    req = p["req"].replace("KEY", key)
    mac, extra = {None: ("entrait", ""), "export": ("entrait_export", ""), "export_mock": ("entrait", ", export, mockall = false, mock_api = TrMock")}[p.get("opts")]
    if p["mode"] == "fn":
        return ["#[::entrait::%s(%s%s)]" % (mac, (req + " Tr").strip(), extra),
                "%s fn f(deps: %s) -> u8 { 7 }" % (p["itemvis"], ANY)]
    if p["mode"] == "mod":
        return ["#[::entrait::%s(%s%s)]" % (mac, (req + " Tr").strip(), extra),
                "%s mod m { %s fn f(deps: %s) -> u8 { 7 } }" % (p["itemvis"], p["fnvis"], ANY)]
    d = "DelegateTr" if p["deleg"] == "static" else "ref"
    return ["#[::entrait::entrait(%s, delegate_by = %s)]" % ((p["itemvis"] + " TrImpl").strip(), d),
            "%s trait Tr { fn f(&self) -> u8; }" % req]


def probe_path(s, from_scope):
    name = target_name(s)
    tail = ("m::" if s["path"] == "inner" else "") + name
    return {"def": "self::" + tail, "mid": "self::def::" + tail, "key": "self::mid::def::" + tail,
            "root": "crate::%s::mid::def::%s" % (s["key"], tail)}[from_scope]


def probe_src(path):
    gen = "<()>" if (path.endswith("TrImpl") or path.endswith("DelegateTr")) else ""
    return "pub fn probe() -> u8 { fn need<X: ?Sized + %s%s>() {} 1 }" % (path, gen)


def render(s, lib=False):
    key = s["key"]
    L = ["%smod %s {" % ("pub " if lib else "", key)]
    if s["scope"] == "key":
        L.append("    " + probe_src(probe_path(s, "key")))
    L.append("    pub mod mid {")
    if s["scope"] == "mid":
        L.append("        " + probe_src(probe_path(s, "mid")))
    L.append("        pub mod def {")
    L += ["            " + l for l in program_src(s, key)]
    if s["scope"] == "def":
        L.append("            " + probe_src(probe_path(s, "def")))
    L += ["        }", "    }", "}"]
    if s["scope"] == "root":
        L.append("mod root_%s { %s }" % (key, probe_src(probe_path(s, "root"))))
    return engine.Unit(key, "\n".join(L), None, s)


PRIVACY = ("E0603", "E0624", "E0446", "E0364", "E0365", "E0451")


def want_vis_tokens(s):
    """(visibility of the emitted trait, visibility of the re-export or None)"""
    req = s["req"].replace("KEY", s["key"])
    if s["mode"] == "mod":
        if "self" in req or "super" in req:
            return (None, req)      # relative to the attribute: how it is spelled INSIDE the module is the macro's business (the probes decide)
        return (req or "pub(super)", req)
    return (req, None)


def evaluate(states, report, tier):
    local = [s for s in states if s["scope"] != "other_crate"]
    units = [render(s) for s in local]
    results, stats = engine.execute(units, feature=False, mode="check")
    report.phases.append(dict(stats, kind="in-crate probes"))
    # second crate: a library containing every program, then one probe per unit
    other = [s for s in states if s["scope"] == "other_crate"]
    art = engine.build_subject(False)
    ores = {}
    with engine.Workdir() as wd:
        libsrc = "#![allow(warnings)]\n" + "\n".join(render(dict(s, scope="none"), lib=True).src for s in other)
        lp = os.path.join(wd, "lib13.rs")
        open(lp, "w").write(libsrc)
        out = os.path.join(wd, "liblib13.rlib")
        cmd = engine.rustc_cmd(art, lp, out, "link", False, crate_type="lib") + ["--crate-name", "lib13"]
        pr = subprocess.run(cmd, cwd=wd, stdout=subprocess.PIPE, stderr=subprocess.PIPE, text=True)
        lib_broken = None
        if pr.returncode != 0:
            # a program that cannot even be defined in a library crate: the same programs are compiled state by state in the
            # in-crate batch above (where the error is attributed); here every second-crate probe is reported as undecidable
            import json as _json
            msgs = []
            for line in pr.stderr.splitlines():
                try:
                    d = _json.loads(line)
                    if d.get("level") == "error":
                        msgs.append(d.get("message", ""))
                except ValueError:
                    pass
            lib_broken = "; ".join(msgs[:3]) or pr.stderr[-300:]
        ounits = []
        for s in other:
            tail = ("m::" if s["path"] == "inner" else "") + target_name(s)
            path = "::lib13::%s::mid::def::%s" % (s["key"], tail)
            ounits.append(engine.Unit(s["key"], "mod %s { %s }" % (s["key"], probe_src(path)), None, s))
        if lib_broken is None:
            ores, st2 = engine.execute(ounits, feature=False, mode="check", extra_externs=[("lib13", out)])
            report.phases.append(dict(st2, kind="second-crate probes"))
        else:
            for u_ in ounits:
                r_ = engine.Res()
                r_.errors.append(dict(code="lib", message="the library crate holding every program does not compile: " + lib_broken, rendered=""))
                ores[u_.key] = r_
        units += ounits
    results.update(ores)
    reqs, keys = [], []
    for s in local:
        recs = [r for r in results[s["key"]].records if "output_tt" in r]
        if recs:
            reqs.append(dict(op="file", tt=recs[0]["output_tt"]))
            keys.append(s["key"])
    views = dict(zip(keys, engine.tokview(reqs)))
    for s, u in zip(local + other, units):
        res = results[s["key"]]
        allowed = model(s)
        problems = []
        priv = [e for e in res.errors if e.get("code") in PRIVACY or "private" in e["message"]]
        otherr = [e for e in res.errors if e not in priv]
        obs = dict(nameable=not res.errors)
        if otherr:
            problems.append((res.compile_sig(s["key"]), "\n".join(res.brief_errors()[:4])))
        elif allowed and priv:
            problems.append(("too-narrow:%s-from-%s" % (s["mode"], s["scope"]), "the %s scope should be able to name the trait (requested `%s`): %s"
                             % (s["scope"], s["req"] or "private", res.brief_errors()[:2])))
        elif not allowed and not priv:
            problems.append(("too-wide:%s-from-%s" % (s["mode"], s["scope"]), "the %s scope can name `%s` although the requested visibility is `%s`"
                             % (s["scope"], target_name(s), s["req"] or "private")))
        v = views.get(s["key"])
        if v and "error" not in v:
            name = target_name(s)
            tr, uses = None, []
            for it in v["items"]:
                if it["k"] == "trait" and it["ident"] == name:
                    tr = it
                if it["k"] == "mod" and it.get("items"):
                    for x in it["items"]:
                        if x["k"] == "trait" and x["ident"] == name:
                            tr = x
                if it["k"] == "use":
                    uses.append(it["vis"].replace(" ", ""))
            wt, wu = want_vis_tokens(s)
            if tr is not None:
                obs["trait_vis"] = tr["vis"].replace(" ", "")
                if wt is not None and obs["trait_vis"] != wt.replace(" ", ""):
                    problems.append(("trait-visibility-token", "emitted `%s trait %s`, requested `%s`" % (tr["vis"], name, wt)))
            if wu is not None and uses != [wu.replace(" ", "")]:
                problems.append(("re-export-visibility-token", "re-exports %s, requested `%s`" % (uses, wu)))
        report.observe(s["key"], dict(nameable=allowed), obs if not problems else dict(obs, problems=[p[0] for p in problems]),
                       nontrivial=True, sample=dict(source=u.src), evals=2)
        for sig, detail in problems:
            tags = {"mode:" + s["mode"], "req:" + (s["req"] or "none"), "scope:" + s["scope"], "path:" + s["path"], "itemvis:" + (s["itemvis"] or "none"), "opts:" + (s.get("opts") or "none")}
            report.violation(s["key"], tags, sig, detail, state=s, source=engine.standalone_source(u), meta=dict(mode="check"))


def run(report, tier):
    states, transitions, bound = enumerate_states(tier)
    report.space(len(states), transitions, bound,
                 "every (input mode, requested visibility, item visibility) program x probe scope {defining scope, parent, grandparent, crate root, "
                 "another crate} x path {direct / re-export / through the module}; every state is non-trivial")
    evaluate(states, report, tier)
