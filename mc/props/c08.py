"""C08 - module mode: the trait's methods are exactly the module's non-private functions.

State = (module item word over the 31-symbol alphabet, requested trait visibility).
Model = filter(visible fn with a body) in source order - nothing else.
Impl  = (a) method list of the generated trait in the recorded expansion (proves exactly-these, in order),
        (b) for words that can compile: a client in the parent scope (and, for pub / pub(crate), at crate
            level through the re-export) calling every expected method on Impl<()>.
"""
from .. import engine, common, gen

ID = "C08"
VIS = ["", "pub", "pub(crate)", "pub(in crate::KEY)"]


def enumerate_states(tier):
    full_len, core_len = (3, 4) if tier == "thorough" else (2, 3)
    words, transitions = common.words(gen.MOD_ITEM_ORDER, full_len)
    core_words, t2 = common.words(gen.MOD_ITEM_CORE, core_len)
    seen = set(words)
    words += [w for w in core_words if w not in seen]
    transitions += t2
    states = []
    for w in words:
        for vi, vis in enumerate(VIS):
            if len(w) > 2 and vi != 0:
                continue
            states.append(dict(key="m%d_%s" % (vi, "_".join(w) or "empty"), items=list(w), vis=vis))
        if len(w) <= 2:
            # the method set does not depend on the other options: exporting invocation, mock options
            states.append(dict(key="mx_%s" % ("_".join(w) or "empty"), items=list(w), vis="pub", opts="entrait_export"))
            states.append(dict(key="mo_%s" % ("_".join(w) or "empty"), items=list(w), vis="pub(crate)", opts="export_mockall"))
    transitions += sum(5 for w in words if len(w) <= 2)
    # module bodies stamped out by macro_rules: fn bodies / types / expressions arrive as invisible groups
    for k in STAMPED:
        states.append(dict(key="ms_" + k, items=[], vis="pub", stamped=k))
        transitions += 1  # 'change requested visibility' edges
    return states, transitions, dict(item_alphabet=len(gen.MOD_ITEM_ORDER), word_len_full_alphabet=full_len,
                                     core_alphabet=len(gen.MOD_ITEM_CORE), word_len_core_alphabet=core_len, vis_on_words_le=2)


STAMPED = {
    # which fragment kinds appear where: (macro pattern, module body, invocation arguments, expected methods, expected call results)
    "block_body": ("($b:block, $t:ty)", "pub fn a1(deps: &impl ::core::any::Any) -> $t $b\n        pub fn a2(deps: &impl ::core::any::Any) -> $t { 2 }\n        fn p3(deps: &impl ::core::any::Any) -> $t $b\n        pub fn a4(deps: &impl ::core::any::Any) -> $t { 4 }",
                   "{ 1 }, u32", ["a1", "a2", "a4"], "a1=1,a2=2,a4=4"),
    "expr_items": ("($e:expr, $t:ty)", "pub const K: $t = $e;\n        pub fn a1(deps: &impl ::core::any::Any) -> $t { $e }\n        pub static S: $t = $e;\n        pub fn a2(deps: &impl ::core::any::Any) -> $t { 2 }",
                   "1, u32", ["a1", "a2"], "a1=1,a2=2"),
    "item_frag": ("($i:item, $s:item)", "pub fn a1(deps: &impl ::core::any::Any) -> u32 { 1 }\n        $i\n        pub fn a3(deps: &impl ::core::any::Any) -> u32 { 3 }\n        $s\n        pub(crate) fn a5(deps: &impl ::core::any::Any) -> u32 { 5 }",
                  "fn p2(deps: &impl ::core::any::Any) -> u32 { 2 }, pub struct S4 { pub f: u8 }", ["a1", "a3", "a5"], "a1=1,a3=3,a5=5"),
    # item fragments that end in `;` (and do not start with a visibility), each directly followed by a visible fn
    "item_semi": ("($i:item, $s:item, $u:item)", "$i\n        pub fn a1(deps: &impl ::core::any::Any) -> u32 { 1 }\n        $s\n        pub fn a3(deps: &impl ::core::any::Any) -> u32 { 3 }\n        $u\n        pub(crate) fn a5(deps: &impl ::core::any::Any) -> u32 { 5 }",
                  "use ::core::any::Any as _;, struct S2;, const K4: u8 = 1;", ["a1", "a3", "a5"], "a1=1,a3=3,a5=5"),
    # an item fragment whose body is itself a block fragment (two macro levels), directly followed by a visible fn
    "item_nested": ("($i:item, $s:item)", "pub fn a1(deps: &impl ::core::any::Any) -> u32 { 1 }\n        $i\n        pub fn a3(deps: &impl ::core::any::Any) -> u32 { 3 }\n        $s\n        pub(crate) fn a5(deps: &impl ::core::any::Any) -> u32 { 5 }",
                    None, ["a1", "a3", "a5"], "a1=1,a3=3,a5=5",
                    "macro_rules! mk2 { ($b:block) => { mk!(fn p2(deps: &impl ::core::any::Any) -> u32 $b, pub struct S4 { pub f: u8 }); } }\n    mk2!({ 2 });"),
    # two alternative definitions of one function, selected by cfg; the one that exists is not the first
    "cfg_alternatives": ("()", "#[cfg(any())] pub fn a1(deps: &impl ::core::any::Any) -> Missing { loop {} }\n        #[cfg(all())] pub fn a1(deps: &impl ::core::any::Any) -> u32 { 1 }\n        pub fn a2(deps: &impl ::core::any::Any) -> u32 { 2 }",
                         "", ["a1", "a1", "a2"], "a1=1,a1=1,a2=2"),
    "vis_ident": ("($v:vis, $n:ident)", "$v fn $n(deps: &impl ::core::any::Any) -> u32 { 1 }\n        pub fn a2(deps: &impl ::core::any::Any) -> u32 { 2 }",
                  "pub(crate), a1", ["a1", "a2"], "a1=1,a2=2"),
}


def compilable(s):
    return all(gen.MOD_ITEMS[x].get("compiles", True) for x in s["items"])


def model(s):
    if s.get("stamped"):
        methods, calls = STAMPED[s["stamped"]][3:5]
        return dict(methods=methods, calls=calls, outer=calls)
    methods = ["a%d" % n for n, sym in enumerate(s["items"], 1) if gen.MOD_ITEMS[sym]["member"]]
    calls = None
    if compilable(s):
        calls = ",".join("a%d=%d" % (n, n) for n, sym in enumerate(s["items"], 1) if gen.MOD_ITEMS[sym]["member"])
    return dict(methods=methods, calls=calls, outer=calls if (s["vis"] in ("pub", "pub(crate)") and calls is not None) else None)


def call_expr(sym, n, recv="app"):
    kind = gen.MOD_ITEMS[sym]["call"]
    e = "%s.a%d()" % (recv, n)
    if kind == "async":
        e = "rt::block_on(%s)" % e
    elif kind == "unsafe":
        e = "unsafe { %s }" % e
    elif kind == "asyncunsafe":
        e = "rt::block_on(unsafe { %s })" % e
    return 'got.push(format!("a%d={}", %s));' % (n, e)


def render_stamped(s):
    key = s["key"]
    pat, body, args, methods, calls = STAMPED[s["stamped"]][:5]
    invoke = STAMPED[s["stamped"]][5] if len(STAMPED[s["stamped"]]) > 5 else "mk!(%s);" % args
    L = ["mod %s {" % key, "    use super::rt;", "    macro_rules! mk { %s => {" % pat, "    #[::entrait::entrait(pub Tr)]", "    pub mod m {",
         "        " + body, "    }", "    } }", "    " + invoke]
    for name, head in (("client", "    #[deny(unused_unsafe)] pub fn client() {"),):
        L.append(head)
        L.append("        let app = ::entrait::Impl::new(());")
        L.append("        let mut got: Vec<String> = Vec::new();")
        for mname in methods:
            L.append('        got.push(format!("%s={}", app.%s()));' % (mname, mname))
        L.append('        rt::out("calls", got.join(",")); rt::out("outer", got.join(","));')
        L.append("    }")
    L.append("}")
    return engine.Unit(key, "\n".join(L), 'rt::run("%s", %s::client);' % (key, key), s)


def render(s):
    if s.get("stamped"):
        return render_stamped(s)
    key = s["key"]
    L = ["mod %s {" % key, "    use super::rt;"]
    mac, extra = {None: ("entrait", ""), "entrait_export": ("entrait_export", ""), "export_mockall": ("entrait", ", export, mockall = false, ?Send")}[s.get("opts")]
    L.append("    #[::entrait::%s(%s%s)]" % (mac, (s["vis"].replace("KEY", key) + " Tr").strip(), extra))
    L.append("    pub mod m {")
    for n, sym in enumerate(s["items"], 1):
        L.append("    " + gen.mod_item_src(sym, n, key))
    L.append("    }")
    call = None
    if compilable(s):
        L.append("    #[deny(unused_unsafe)] pub fn client() {")
        L.append("        let app = ::entrait::Impl::new(());")
        L.append("        let mut got: Vec<String> = Vec::new();")
        for n, sym in enumerate(s["items"], 1):
            if gen.MOD_ITEMS[sym]["member"]:
                L.append("        " + call_expr(sym, n))
        L.append('        rt::out("calls", got.join(","));')
        if s["vis"] in ("pub", "pub(crate)"):
            L.append('        rt::out("outer", crate::outer_%s());' % key)
        L.append("    }")
        call = 'rt::run("%s", %s::client);' % (key, key)
    L.append("}")
    if compilable(s) and s["vis"] in ("pub", "pub(crate)"):
        L.append("#[deny(unused_unsafe)] fn outer_%s() -> String {" % key)
        L.append("    use crate::%s::Tr as Renamed;" % key)
        L.append("    let app = ::entrait::Impl::new(());")
        L.append("    let mut got: Vec<String> = Vec::new();")
        for n, sym in enumerate(s["items"], 1):
            if gen.MOD_ITEMS[sym]["member"]:
                L.append("    " + call_expr(sym, n))
        L.append('    got.join(",")')
        L.append("}")
    return engine.Unit(key, "\n".join(L), call, s)


def tags_of(s):
    return {"item:" + x for x in s["items"]} | {"vis:" + (s["vis"] or "none"), "opts:" + (s.get("opts") or "none")} | ({"stamped:" + s["stamped"]} if s.get("stamped") else set())


def evaluate(states, report, tier):
    comp = [s for s in states if compilable(s)]
    ncomp = [s for s in states if not compilable(s)]
    results = {}
    units = {}
    for group, mode in ((comp, "run"), (ncomp, "expand")):
        if not group:
            continue
        us = [render(s) for s in group]
        for s, u in zip(group, us):
            units[s["key"]] = u
        res, stats = engine.execute(us, feature=False, mode=mode)
        report.phases.append(dict(mode=mode, states=len(group), **stats))
        results.update(res)
    # structural view of every expansion
    reqs, keys = [], []
    for s in states:
        recs = [r for r in results[s["key"]].records if "output_tt" in r]
        if len(recs) == 1:
            reqs.append(dict(op="file", tt=recs[0]["output_tt"]))
            keys.append(s["key"])
    views = dict(zip(keys, engine.tokview(reqs)))
    for s in states:
        res = results[s["key"]]
        m = model(s)
        problems = []
        observed = dict(methods=None, calls=None, outer=None)
        recs = res.records
        if len(recs) != 1:
            problems.append(("recorder:%d-records" % len(recs), ""))
        elif "panic" in recs[0]:
            problems.append(("macro-panic", recs[0]["panic"]))
        else:
            v = views.get(s["key"])
            if not v or "error" in v:
                problems.append(("output-unparsable", str(v)))
            else:
                traits = []
                reexports = []
                for it in v["items"]:
                    if it["k"] == "mod" and it["items"] is not None:
                        traits += [x for x in it["items"] if x["k"] == "trait" and x["ident"] == "Tr"]
                    if it["k"] == "use":
                        reexports.append((it["vis"].replace(" ", ""), it["tree"]))
                if len(traits) != 1:
                    problems.append(("no-generated-trait", "traits named Tr inside the module: %d" % len(traits)))
                else:
                    observed["methods"] = [x["sig"]["ident"] for x in traits[0]["items"] if x["k"] == "fn"]
                    others = [x["k"] for x in traits[0]["items"] if x["k"] != "fn"]
                    if others:
                        problems.append(("trait-has-non-fn-items", str(others)))
                    if observed["methods"] != m["methods"]:
                        extra = [x for x in observed["methods"] if x not in m["methods"]]
                        missing = [x for x in m["methods"] if x not in observed["methods"]]
                        sig = "methods:" + ("extra" if extra else "missing" if missing else "order")
                        problems.append((sig, "trait methods %s, model says %s" % (observed["methods"], m["methods"])))
                want_use = (s["vis"].replace("KEY", s["key"]).replace(" ", ""), "m :: Tr")
                if reexports != [want_use]:
                    problems.append(("re-export", "%s, model says %s" % (reexports, [want_use])))
        if compilable(s):
            if res.errors:
                problems.append((res.compile_sig(s["key"]),
                                 "\n".join(res.brief_errors()[:5])))
            elif res.crashed or "__panic" in res.out:
                problems.append(("client-crash", str(res.crashed or res.out.get("__panic"))))
            else:
                observed["calls"] = res.first("calls")
                observed["outer"] = res.first("outer")
                if observed["calls"] != m["calls"]:
                    problems.append(("calls", "%r, model says %r" % (observed["calls"], m["calls"])))
                if observed["outer"] != m["outer"]:
                    problems.append(("outer-calls", "%r, model says %r" % (observed["outer"], m["outer"])))
        u = units[s["key"]]
        report.observe(s["key"], m, observed if not problems else dict(observed, problems=[p[0] for p in problems]),
                       nontrivial=len(s["items"]) > 0, sample=dict(source=u.src), evals=3 if compilable(s) else 1)
        for sig, detail in problems:
            report.violation(s["key"], tags_of(s), sig, detail, state=s, source=engine.standalone_source(u),
                             meta=dict(mode="run" if compilable(s) else "expand",
                                       output=(recs[0].get("output") if recs else None)))


def run(report, tier):
    states, transitions, bound = enumerate_states(tier)
    report.space(len(states), transitions, bound,
                 "BFS over module item words (alphabet %s) x requested trait visibility %s on short words; "
                 "non-trivial = non-empty module" % (gen.MOD_ITEM_ORDER, VIS))
    report.assumptions += ["words containing `const fn` / body-less declarations cannot compile as traits: token view only"]
    common.evaluate_chunked(evaluate, states, report, tier)
