"""C01 - calling a generated trait method is calling the original function.

State  = (parameter word, deps form, async, container, mockable, crate feature).
Model  = "one event, of this very function, on the caller's receiver, arguments in declared order,
          same result, &mut arguments mutated the same way" - written down here from the state alone.
Impl   = generated program: direct call and trait call, compiled against the real macro and run.
"""
from .. import engine, common, gen

ID = "C01"

DEPS = ["impl", "wild", "gen_inline", "gen_where", "val_gen", "val_impl", "concrete", "val_concrete", "nodeps"]
DEPS_DESC = {
    "impl": "deps: &impl Dep", "wild": "_: &impl Dep", "gen_inline": "<D: Dep>(deps: &D)", "gen_where": "<D>(deps: &D) where D: Dep",
    "val_gen": "<D: Dep>(deps: D)", "val_impl": "deps: impl Dep", "concrete": "deps: &App", "val_concrete": "deps: App", "nodeps": "no_deps",
}
PARAMS = "irmstunw"


def make_state(params, deps, asy, container, mock, feature):
    key = "s_%s_%s_%s_%s_%s_%s" % (params or "0", deps, "a" if asy else "s", container, "m" if mock else "p",
                                   "fon" if feature else "foff")
    return dict(key=key, params=params, deps=deps, asy=asy, container=container, mock=mock, feature=feature)


def enumerate_states(tier):
    if tier == "thorough":
        full_arity, base_arity = 3, 4
    else:
        full_arity, base_arity = 2, 3
    words, transitions = common.words(PARAMS, base_arity)
    states = []
    seen = set()
    for w in words:
        p = "".join(w)
        for deps in DEPS:
            for asy in (False, True):
                for container in ("fn", "mod"):
                    for mock in (False, True):
                        for feature in (False, True):
                            if deps in ("concrete", "val_concrete") and container == "mod":
                                continue  # rejected by design: concrete deps in a module (C15's business)
                            if len(w) > full_arity:
                                # deeper words only on the base configurations
                                if tier == "thorough":
                                    if container != "fn" or mock or feature:
                                        continue
                                else:
                                    if not (container == "fn" and not mock and not feature and deps in ("impl", "nodeps")):
                                        continue
                            s = make_state(p, deps, asy, container, mock, feature)
                            if s["key"] not in seen:
                                seen.add(s["key"])
                                states.append(s)
    # macro_rules-stamped functions: parameters spelled identically but coming from different hygiene contexts
    for deps in DEPS:
        for asy in (False, True):
            for feature in (False, True):
                if deps != "val_concrete":
                    states.append(make_state("iii", deps, asy, "mac", False, feature))
    # every non-root state has exactly one incoming 'append a parameter' edge inside its configuration
    transitions = sum(1 for s in states if s["params"])
    return states, transitions, dict(param_alphabet=len(PARAMS), arity_full=full_arity, arity_base=base_arity)


def fn_names(s):
    return ["f0", "f1", "f2"] if s["container"] == "mod" else ["f0"]


def render_fn(s, j, vis):
    params = s["params"]
    deps = s["deps"]
    generics, where, deps_param = "", "", ""
    if deps == "impl":
        deps_param = "deps: &impl Dep"
    elif deps == "wild":
        deps_param = "_: &impl Dep"
    elif deps == "gen_inline":
        generics, deps_param = "<D: Dep>", "deps: &D"
    elif deps == "gen_where":
        generics, deps_param, where = "<D>", "deps: &D", " where D: Dep"
    elif deps == "val_gen":
        generics, deps_param = "<D: Dep>", "deps: D"
    elif deps == "val_impl":
        deps_param = "deps: impl Dep"
    elif deps == "concrete":
        deps_param = "deps: &App"
    elif deps == "val_concrete":
        deps_param = "deps: App"
    plist = ([deps_param] if deps_param else []) + [gen.param_decl(k, i + 1) for i, k in enumerate(params)]
    if s["container"] == "mac":
        # `$p` is spelled `x` at the call site, the second `x` belongs to the macro body: distinct bindings
        plist = ([deps_param] if deps_param else []) + ["$p: i64", "x: i64", "y: i64"]
    if deps in ("impl", "gen_inline", "gen_where"):
        head = ["rt::addr(deps)", "rt::tn(deps)", "deps.tok()"]
    elif deps == "wild":
        head = ["0usize", '"-"', "0u64"]
    elif deps in ("val_gen", "val_impl"):
        head = ["0usize", "rt::tn(&deps)", "deps.tok()"]
    elif deps == "concrete":
        head = ["rt::addr(deps)", "rt::tn(deps)", "deps.tok"]
    elif deps == "val_concrete":
        head = ["0usize", "rt::tn(&deps)", "deps.tok"]
    else:
        head = ["0usize", '"-"', "0u64"]
    shows = []
    muts = []
    for i, k in enumerate(params):
        shows += gen.param_show_exprs(k, i + 1)
        if k == "m":
            muts.append("*x%d += 100;" % (i + 1))
    if s["container"] == "mac":
        shows = ["$p", "x", "y"]
    body = []
    if s["asy"]:
        body.append("rt::yield_once().await;")
    body.append("rt::ev(%s);" % gen.fmt_call("E%d" % j, ['format!("{:x}", %s)' % head[0]] + head[1:] + shows))
    body.append("let res = %s;" % gen.fmt_call("R%d" % j, shows))
    body += muts
    body.append("res")
    return "%s%sfn f%d%s(%s) -> String%s {\n        %s\n    }" % (
        vis, "async " if s["asy"] else "", j, generics, ", ".join(plist), where, "\n        ".join(body))


def attr_for(s):
    opts = ["pub Tr"]
    if s["deps"] == "nodeps":
        opts.append("no_deps")
    if s["mock"]:
        opts.append("mock_api=TrMock" if s["feature"] else "mockall")
    return "#[::entrait::entrait(%s)]" % ", ".join(opts)


def render(s):
    key = s["key"]
    params = s["params"]
    deps = s["deps"]
    L = []
    L.append("mod %s {" % key)
    L.append("    use super::rt;")
    L.append("    pub struct N(pub i64);")
    L.append("    pub trait Dep { fn tok(&self) -> u64; }")
    L.append("    pub struct App { pub tok: u64 }")
    L.append("    impl Dep for App { fn tok(&self) -> u64 { self.tok } }")
    L.append("    impl Dep for ::entrait::Impl<App> { fn tok(&self) -> u64 { let a: &App = &**self; a.tok } }")
    if s["container"] == "fn":
        L.append("    " + attr_for(s))
        L.append("    " + render_fn(s, 0, "pub "))
        path = ""
    elif s["container"] == "mac":
        L.append("    macro_rules! stamp { ($p:ident) => {")
        L.append("    " + attr_for(s))
        L.append("    " + render_fn(s, 0, "pub "))
        L.append("    } }")
        L.append("    stamp!(x);")
        path = ""
    else:
        L.append("    " + attr_for(s))
        L.append("    pub mod m {")
        L.append("    use super::*;")
        for j in range(3):
            L.append("    " + render_fn(s, j, "pub "))
        L.append("    }")
        path = "m::"
    # client
    L.append("    pub fn client() {")
    args = [gen.param_arg(k, i + 1) for i, k in enumerate(params)]
    minit = "".join("let mut m%d = %di64; " % (i + 1, 10 + i + 1) for i, k in enumerate(params) if k == "m")
    mshow = gen.fmt_call("M", ["m%d" % (i + 1) for i, k in enumerate(params) if k == "m"])

    def wrap(e):
        return "rt::block_on(%s)" % e if s["asy"] else e

    def emit(name, call, exp_addr, exp_tn):
        L.append("        { %slet r = %s; rt::out(\"%s\", format!(\"{}##{}##{}##{:x}|{}\", rt::take(), r, %s, %s, %s)); }"
                 % (minit, wrap(call), name, mshow, exp_addr, exp_tn))

    for j, f in enumerate(fn_names(s)):
        if deps in ("impl", "gen_inline", "gen_where"):
            L.append("        let app = ::entrait::Impl::new(App { tok: 7 });")
            emit("d%d" % j, "%s%s(%s)" % (path, f, ", ".join(["&app"] + args)), "rt::addr(&app)", "rt::tn(&app)")
            emit("t%d" % j, "app.%s(%s)" % (f, ", ".join(args)), "rt::addr(&app)", "rt::tn(&app)")
        elif deps == "wild":
            L.append("        let app = ::entrait::Impl::new(App { tok: 7 });")
            emit("d%d" % j, "%s%s(%s)" % (path, f, ", ".join(["&app"] + args)), "0usize", '"-"')
            emit("t%d" % j, "app.%s(%s)" % (f, ", ".join(args)), "0usize", '"-"')
        elif deps in ("val_gen", "val_impl"):
            tn = "rt::tn_of::<::entrait::Impl<App>>()"
            emit("d%d" % j, "%s%s(%s)" % (path, f, ", ".join(["::entrait::Impl::new(App { tok: 7 })"] + args)), "0usize", tn)
            emit("t%d" % j, "::entrait::Impl::new(App { tok: 7 }).%s(%s)" % (f, ", ".join(args)), "0usize", tn)
        elif deps == "val_concrete":
            tn = "rt::tn_of::<App>()"
            emit("d%d" % j, "%s(%s)" % (f, ", ".join(["App { tok: 7 }"] + args)), "0usize", tn)
            emit("t%d" % j, "Tr::%s(%s)" % (f, ", ".join(["App { tok: 7 }"] + args)), "0usize", tn)
            emit("c%d" % j, "<::entrait::Impl<App> as Tr>::%s(%s)" % (f, ", ".join(["::entrait::Impl::new(App { tok: 7 })"] + args)), "0usize", tn)
        elif deps == "concrete":
            L.append("        let app = App { tok: 7 };")
            L.append("        let iapp = ::entrait::Impl::new(App { tok: 7 });")
            emit("d%d" % j, "%s(%s)" % (f, ", ".join(["&app"] + args)), "rt::addr(&app)", "rt::tn(&app)")
            emit("t%d" % j, "app.%s(%s)" % (f, ", ".join(args)), "rt::addr(&app)", "rt::tn(&app)")
            emit("c%d" % j, "iapp.%s(%s)" % (f, ", ".join(args)), "rt::addr(&iapp)", "rt::tn(&app)")
        else:
            L.append("        let app = ::entrait::Impl::new(App { tok: 7 });")
            emit("d%d" % j, "%s%s(%s)" % (path, f, ", ".join(args)), "0usize", '"-"')
            emit("t%d" % j, "app.%s(%s)" % (f, ", ".join(args)), "0usize", '"-"')
    L.append("    }")
    L.append("}")
    return engine.Unit(key, "\n".join(L), 'rt::run("%s", %s::client);' % (key, key), s)


def model(s):
    """Expected observation vector, from the state alone ({exp} is filled from the client's own receiver)."""
    params = s["params"]
    exp = {}
    shown = []
    for i, k in enumerate(params):
        shown += gen.param_expected(k, i + 1)
    muts = [str(10 + i + 1 + 100) for i, k in enumerate(params) if k == "m"]
    tok = "0" if s["deps"] in ("nodeps", "wild") else "7"
    calls = ["d", "t"] + (["c"] if s["deps"] in ("concrete", "val_concrete") else [])
    for j, _ in enumerate(fn_names(s)):
        for c in calls:
            exp["%s%d" % (c, j)] = dict(
                trace_tail="|".join([tok] + shown), fn=j,
                result="|".join(["R%d" % j] + shown), muts="|".join(["M"] + muts))
    return exp


def compare(s, res):
    """-> list of (signature, detail)"""
    problems = []
    if res.errors:
        return [(res.compile_sig(s["key"]),
                 "\n".join(res.brief_errors()[:6]))]
    if res.crashed:
        return [("crash", res.crashed)]
    if "__panic" in res.out:
        return [("panic:" + res.out["__panic"][0][:80], res.out["__panic"][0])]
    for name, e in model(s).items():
        got = res.first(name)
        if got is None:
            problems.append(("missing-observation", name))
            continue
        parts = got.split("##")
        trace, result, muts, expaddr = parts[0], parts[1], parts[2], parts[3]
        addr, tn = expaddr.split("|", 1)
        want_trace = "E%d|%s|%s|%s" % (e["fn"], addr, tn, e["trace_tail"])
        if trace != want_trace:
            events = trace.split(";") if trace else []
            if len(events) != 1:
                sig = "trace:%d-events" % len(events)
            elif not trace.startswith("E%d|" % e["fn"]):
                sig = "trace:wrong-function"
            elif trace.split("|")[1:3] != [addr, tn]:
                sig = "trace:wrong-receiver"
            else:
                sig = "trace:wrong-arguments"
            problems.append((sig, "%s: trace %r, model says %r" % (name, trace, want_trace)))
        if result != e["result"]:
            problems.append(("result", "%s: result %r, model says %r" % (name, result, e["result"])))
        if muts != e["muts"]:
            problems.append(("mut-args", "%s: &mut arguments after call %r, model says %r" % (name, muts, e["muts"])))
    return problems


def tags_of(s):
    t = {"deps:" + s["deps"], "container:" + s["container"], "async" if s["asy"] else "sync",
         "mock" if s["mock"] else "plain", "feature:" + ("on" if s["feature"] else "off")}
    for k in set(s["params"]):
        t.add("param:" + k)
    t.add("arity:%d" % len(s["params"]))
    return t


def evaluate(states, report, tier):
    for feature in (False, True):
        group = [s for s in states if s["feature"] == feature]
        if not group:
            continue
        units = [render(s) for s in group]
        results, stats = engine.execute(units, feature=feature, mode="run")
        report.phases.append(dict(feature=feature, states=len(group), **stats))
        for s, u in zip(group, units):
            res = results[s["key"]]
            problems = compare(s, res)
            observed = {k: v for k, v in res.out.items() if not k.startswith("__")} if not problems else \
                {"problems": [p[0] for p in problems]}
            # addresses differ between runs; strip them from the outcome class
            obs_class = {k: [x.split("##")[1:3] for x in v] for k, v in observed.items()} if not problems else observed
            report.observe(s["key"], model(s), obs_class, nontrivial=len(s["params"]) >= 1,
                           sample=dict(descr="%s | params=%s | %s | %s | %s" % (
                               DEPS_DESC[s["deps"]], [gen.PARAM_KINDS[k]["desc"] for k in s["params"]],
                               "async" if s["asy"] else "sync", s["container"], attr_for(s)),
                               source=u.src),
                           evals=len(model(s)) * 3)
            for sig, detail in problems:
                report.violation(s["key"], tags_of(s), sig, detail, state=s,
                                 source=engine.standalone_source(u),
                                 meta=dict(feature=feature, mode="run"))


def run(report, tier):
    states, transitions, bound = enumerate_states(tier)
    report.space(len(states), transitions, bound,
                 "BFS over parameter words (alphabet %s) x deps forms %s x async x container x mockable x feature; "
                 "non-trivial = at least one forwarded argument" % (list(PARAMS), DEPS))
    report.assumptions += ["rustc 1.95 and its JSON diagnostics", "generated scaffolding (direct-call side compiles and runs)"]
    common.evaluate_chunked(evaluate, states, report, tier)
