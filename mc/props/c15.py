"""C15 - misuse yields a compile-time diagnostic; the macro never panics, never emits unparsable tokens.

Three state spaces, all driven through the real macro:
  (i)   every attribute-argument token word up to the bound over a 23-token alphabet x {fn, mod, trait, impl}
  (ii)  unsupported item kinds and the documented misuses, each with its specific message and location
  (iii) parameter-pattern words in trait-method signatures (with / without default bodies) x delegation kinds
Model: "accepted or rejected" is not prescribed for arbitrary words - only *how*: no panic, output parses as
Rust items, a rejection is a compile_error reported by rustc inside the invocation's own lines.  For (ii) the
exact message class and the reported line are prescribed.
"""
from .. import engine, common

ID = "C15"

TOKENS = ["Foo", "pub", "no_deps", "export", "mock_api", "unimock", "mockall", "delegate_by", "=", "true", "false", ",",
          "?", "Send", "ref", "dyn", "Self", "Borrow", "bogus", '"str"', "42", "(crate)", "debug = false"]
ITEMS = {
    "fn": "pub fn f(deps: &impl ::core::any::Any, a: i64) -> i64 { a }",
    "mod": "pub mod m { pub fn a(deps: &impl ::core::any::Any) {} fn p() {} }",
    "trait": "pub trait T { fn m(&self, a: i64) -> i64; }",
    "impl": "impl TrImpl for X { fn a(deps: &impl ::core::any::Any) {} }",
}

MSG_DEPS = "Function must have a dependency 'receiver' as its first parameter"
# documented misuses / unsupported items: (name, attr args, item source lines, expected message fragment or None,
#                                          0-based line (within item lines, -1 = attribute line) where the error must point)
MISUSE = [
    ("missing-deps", "Foo", ["pub fn", "f", "() {}"], MSG_DEPS, 1),
    ("self-receiver", "Foo", ["pub fn f(", "&self", ") {}"], "Function cannot have a self receiver", 1),
    ("self-receiver-value", "Foo", ["pub fn f(", "self", ", a: i32) {}"], "Function cannot have a self receiver", 1),
    ("self-receiver-no-deps", "Foo, no_deps", ["pub fn f(", "&self", ", a: i32) {}"], "Function cannot have a self receiver", 1),
    ("self-receiver-no-deps-typed-in-module", "Foo, no_deps", ["pub mod m { pub fn f(", "self: Box<Self>", ") {} }"], "Function cannot have a self receiver", 1),
    ("concrete-in-module", "Foo", ["pub mod m { pub fn a(deps:", "&u32", ") {} }"], "Using concrete dependencies in a module is an anti-pattern", 1),
    ("concrete-in-impl", "", ["impl TrImpl for X { fn a(deps:", "&u32", ") {} }"], "Cannot (yet) use concrete dependency in an impl block", 1),
    ("concrete-in-module-later-fn", "Foo", ["pub mod m { pub fn a(deps: &impl ::core::any::Any) {} fn p() {} pub fn b(deps:", "&u32", ") {} }"], "Using concrete dependencies in a module is an anti-pattern", 1),
    ("concrete-in-module-third-fn", "Foo", ["pub mod m { pub fn a<D>(deps: &D) {} pub fn b(deps: &impl Sized) {} pub fn c(deps:", "&u32", ") {} }"], "Using concrete dependencies in a module is an anti-pattern", 1),
    ("concrete-in-impl-later-fn", "", ["impl TrImpl for X { fn a(deps: &impl ::core::any::Any) {} fn b(deps:", "&u32", ") {} }"], "Cannot (yet) use concrete dependency in an impl block", 1),
    ("concrete-in-module-cfg-fn", "Foo", ["pub mod m { #[cfg(all())] pub fn a(deps:", "&u32", ") {} }"], "Using concrete dependencies in a module is an anti-pattern", 1),
    ("concrete-in-module-later-cfg-fn", "Foo", ["pub mod m { pub fn a(deps: &impl ::core::any::Any) {} #[cfg(all())] #[inline] pub fn b(deps:", "&u32", ") {} }"], "Using concrete dependencies in a module is an anti-pattern", 1),
    ("concrete-in-impl-cfg-fn", "", ["impl TrImpl for X { #[cfg(all())] fn a(deps:", "&u32", ") {} }"], "Cannot (yet) use concrete dependency in an impl block", 1),
    ("generic-name-clash-in-module", "Foo", ["pub mod m { pub fn a<T: Copy>(deps: &impl ::core::any::Any, t: T) {} pub fn b<", "T: Clone", ">(deps: &impl ::core::any::Any, t: T) {} }"], "another function has already declared a different parameter with this name", 1),
    ("generic-name-clash-in-impl", "", ["impl TrImpl for X { fn a<const N: usize>(deps: &impl ::core::any::Any) {} fn b<", "const N: u8", ">(deps: &impl ::core::any::Any) {} }"], "another function has already declared a different parameter with this name", 1),
    ("missing-deps-in-module-later-fn", "Foo", ["pub mod m { pub fn a(deps: &impl ::core::any::Any) {} pub fn", "b", "() {} }"], MSG_DEPS, 1),
    ("self-receiver-in-impl-later-fn", "", ["impl TrImpl for X { fn a(deps: &impl ::core::any::Any) {} fn b(", "&self", ") {} }"], "Function cannot have a self receiver", 1),
    ("unknown-option-after-valid-ones", "Foo, no_deps, export = false, mock_api = M,\nbogus", ["pub fn f(deps: &()) {}"], 'Unkonwn entrait option "bogus"', -1),
    ("unknown-option", "Foo,\nbogus", ["pub fn f(deps: &()) {}"], 'Unkonwn entrait option "bogus"', -1),
    ("unknown-question-option", "Foo, ?\nSync", ["pub fn f(deps: &()) {}"], 'Unkonwn entrait option "Sync"', -1),
    ("unsupported-delegate-by-on-fn", "Foo,\ndelegate_by = ref", ["pub fn f(deps: &()) {}"], "Unsupported option", -1),
    ("unsupported-no-deps-on-trait", "\nno_deps", ["pub trait T { fn m(&self); }"], "Unsupported option", -1),
    ("unsupported-export-on-trait", "\nexport", ["pub trait T { fn m(&self); }"], "Unsupported option", -1),
    ("unsupported-mock-api-on-impl", "\nmock_api = M", ["impl TrImpl for X { fn a(deps: &()) {} }"], "Unsupported option", -1),
    ("custom-delegate-without-target", "\ndelegate_by = DelegateT", ["pub trait T { fn m(&self); }"], "Cannot use a custom delegating trait without a custom trait to delegate to", -1),
    ("target-without-delegate-by", "TImpl", ["pub trait T { fn m(&self); }"], "Missing delegate_by", None),
    ("missing-trait-name", "", ["pub fn f(deps: &()) {}"], None, None),
    # keywords where an identifier is expected: whatever the macro does, it must not emit them as identifiers
    ("keyword-selector-pub", "TImpl, delegate_by = pub", ["pub trait T { fn m(&self); }"], None, None),
    ("keyword-selector-dyn", "TImpl delegate_by = dyn", ["pub trait T { fn m(&self); }"], None, None),
    ("keyword-selector-true", "TImpl, delegate_by = true", ["pub trait T { fn m(&self); }"], None, None),
    ("keyword-selector-crate", "TImpl, delegate_by = crate", ["pub trait T { fn m(&self); }"], None, None),
    ("keyword-mock-api", "Foo, mock_api = pub", ["pub fn f(deps: &()) {}"], None, None),
    ("keyword-mock-api-self", "mock_api = Self", ["pub trait T { fn m(&self); }"], None, None),
    ("keyword-trait-name", "pub fn", ["pub fn f(deps: &()) {}"], None, None),
    ("keyword-trait-name-self", "Self", ["pub fn f(deps: &()) {}"], None, None),
    ("keyword-impl-trait-name", "pub Self, delegate_by = ref", ["pub trait T { fn m(&self); }"], None, None),
    ("raw-keyword-names", "r#pub, mock_api = r#fn", ["pub fn f(deps: &()) {}"], "<accepted>", None),
    ("mod-declaration-without-body", "Foo", ["mod external", ";"], None, None),
    ("trait-const-item", "", ["pub trait T {", "const C: u8;", "fn m(&self); }"], "Entrait does not support this kind of trait item", 1),
    ("trait-macro-item", "", ["pub trait T {", "some_macro!();", "fn m(&self); }"], "Entrait does not support this kind of trait item", 1),
    ("struct", "Foo", ["pub struct S { a: u8 }"], None, None),
    ("tuple-struct", "Foo", ["pub struct S(u8);"], None, None),
    ("enum", "Foo", ["pub enum E { A, B }"], None, None),
    ("const", "Foo", ["pub const C: u8 = 1;"], None, None),
    ("static", "Foo", ["pub static S: u8 = 1;"], None, None),
    ("use", "Foo", ["pub use ::core::any::Any;"], None, None),
    ("type-alias", "Foo", ["pub type T = u8;"], None, None),
    ("union", "Foo", ["pub union U { a: u8 }"], None, None),
    ("inherent-impl", "", ["impl X { fn a(deps: &()) {} }"], None, None),
    ("extern-crate", "Foo", ["extern crate core as mycore;"], None, None),
    ("macro-rules", "Foo", ["macro_rules! mm { () => {} }"], None, None),
    ("extern-block", "Foo", ['extern "C" { fn ext(); }'], None, None),
    ("auto-trait", "", ["pub auto trait Au {}"], None, None),
    ("unsafe-mod", "Foo", ["pub unsafe mod um { pub fn a(deps: &()) {} }"], "Not allowed here", 0),
    ("auto-impl", "", ["auto impl TrImpl for X {}"], "Not allowed here", 0),
    ("auto-mod", "Foo", ["pub auto mod am {}"], "Not allowed here", 0),
    ("generic-impl-block", "", ["impl<T> TrImpl for Y<T> { fn a(deps: &()) {} }"], None, None),
    ("negative-impl", "", ["impl !TrImpl for X {}"], None, None),
    ("fn-empty-params-no-deps-ok", "Foo, no_deps", ["pub fn f() {}"], "<accepted>", None),
    ("variadic-fn", "Foo", ['pub unsafe extern "C" fn v(deps: &(), ...) {}'], None, None),
    ("trait-alias", "", ["pub trait TA = Clone;"], None, None),
    ("closure-param-types", "Foo", ["pub fn f(deps: &(), g: impl Fn(i32) -> i32, h: fn(u8), i: [u8; 2], j: *const u8, k: !) {}"], "<accepted>", None),
]

SIGSHAPES = {
    "p": "pub fn f{n}(deps: &impl ::core::any::Any, a: i64) -> i64 {{ a }}",
    "w": "pub fn f{n}<T{n}>(deps: &impl ::core::any::Any, t: T{n}) -> T{n} where T{n}: Clone {{ t }}",
    "wc": "pub fn f{n}<T{n}>(deps: &impl ::core::any::Any, t: T{n}) -> T{n} where T{n}: Clone, {{ t }}",
    "gw": "pub fn f{n}<D, T{n}>(deps: &D, t: T{n}) -> T{n} where D: ::core::any::Any, T{n}: Clone {{ t }}",
    "lt": "pub fn f{n}<D: 'static, T{n}>(deps: &D, t: &T{n}) -> usize where for<'x> &'x T{n}: ::core::iter::IntoIterator<Item = &'x u8> {{ t.into_iter().count() }}",
    "lw": "pub fn f{n}<'a, T{n}: 'a>(deps: &'a impl ::core::any::Any, t: &'a T{n}) -> &'a T{n} where T{n}: 'a + Clone {{ t }}",
    # items that are not functions with bodies ride through the parser as opaque tokens (cfg'd off: they are only tokens to rustc too)
    "bd": "#[cfg(any())] pub fn d{n}(deps: &u8);",
    "bdc": "#[cfg(any())] pub(crate) unsafe fn d{n}<T>(t: T) -> T where T: Clone;",
    "bn": "#[cfg(any())] fn d{n}();",
    "as": "pub async fn f{n}<T{n}: Send>(deps: &impl ::core::any::Any, t: T{n}) -> T{n} where T{n}: Clone + Send {{ t }}",
}
PATS = {
    "id": ("p{i}", "i64"), "mut": ("mut p{i}", "i64"), "ref": ("ref p{i}", "i64"), "wild": ("_", "i64"),
    "tup": ("(p{i}a, p{i}b)", "(i64, i64)"), "ts1": ("N(p{i})", "N"), "refpat": ("&p{i}", "&i64"), "raw": ("r#match", "i64"),
    "at": ("p{i} @ _", "i64"), "slice": ("[p{i}a, p{i}b]", "[i64; 2]"),
}
OPTLIST = ["no_deps", "export", "unimock", "mockall", "mock_api = M", "?Send", "unimock = false", "mockall = false", "export = false",
           "delegate_by = ref", "debug = false"]
VISLEADS = ["pub", "pub(crate)", "pub(self)", "pub(super)", "pub(in self)", "pub(in super)", "pub(in super::super)", "pub(in crate)", "pub(in crate::x)", "pub(in ::x)"]
RECVS = {"norecv": "", "val": "self", "mutref": "&mut self"}
DELEG = {
    "default": "",
    "ref": "delegate_by = ref",
    "borrow": "delegate_by = Borrow",
    "static_target": "TImpl, delegate_by = DelegateT",
    "dyn_target": "TImpl, delegate_by = ref",
    "mocks": "mock_api = TMock, unimock, mockall",
}


def enumerate_states(tier):
    maxlen = 4 if tier == "thorough" else 3
    states = []
    transitions = 0
    words, t = common.words(range(len(TOKENS)), maxlen)
    for item in ITEMS:
        if tier == "thorough" and item in ("mod", "impl"):
            ws = [w for w in words if len(w) <= 3]
        else:
            ws = words
        for w in ws:
            states.append(dict(key="a_%s_%s" % (item, "_".join(map(str, w)) or "e"), kind="attr", item=item, word=list(w)))
        transitions += len(ws) - 1
    # well-formed option LISTS (longer than the token words reach): every ordered selection of <= 2 (3) options after a trait name
    import itertools as _it
    for k in range(1, (3 if tier == "thorough" else 2) + 1):
        for sel in _it.permutations(range(len(OPTLIST)), k):
            for item in ITEMS:
                for variant in ("entrait", "entrait_export"):
                    lead = "Foo, " if item in ("fn", "mod") else ""
                    states.append(dict(key="o_%s_%s_%s" % (item, "_".join(map(str, sel)), "x" if variant == "entrait_export" else "e"), kind="attr", item=item,
                                       word=[], text=lead + ", ".join(OPTLIST[i] for i in sel), variant=variant))
                    transitions += 1
    # every way of writing the requested trait visibility, on fn and mod items
    for vi, vis in enumerate(VISLEADS):
        for item in ("fn", "mod"):
            for ti, tail in enumerate(("", ", mockall", ", no_deps" if item == "fn" else ", ?Send")):
                states.append(dict(key="ov_%s_%d_%d" % (item, vi, ti), kind="attr", item=item, word=[], text="%s Foo%s" % (vis, tail), variant="entrait"))
                transitions += 1
    for name, attr, lines, msg, line in MISUSE:
        for variant in ("entrait", "entrait_export"):
            states.append(dict(key="u_%s_%s" % (name.replace("-", "_"), "x" if variant == "entrait_export" else "e"),
                               kind="misuse", name=name, variant=variant))
            transitions += 1
    pwords, t = common.words(list(PATS), 2)
    for w in pwords:
        if len(set(w)) != len(w) and "raw" in w:
            continue
        for body in (False, True):
            for d in DELEG:
                states.append(dict(key="p_%s_%s_%s" % ("_".join(w) or "none", "body" if body else "decl", d), kind="traitpat",
                                   word=list(w), body=body, deleg=d))
                transitions += 1
    # the same family with other receivers: none at all (an associated function), by value, `&mut self`
    for w in [x for x in pwords if len(x) <= 1]:
        for recv in RECVS:
            for body in (False, True):
                for d in DELEG:
                    states.append(dict(key="p_%s_%s_%s_%s" % ("_".join(w) or "none", "body" if body else "decl", d, recv), kind="traitpat",
                                       word=list(w), body=body, deleg=d, recv=recv))
                    transitions += 1
    swords, t = common.words(list(SIGSHAPES), 3 if tier == "thorough" else 2, minlen=1)
    for w in swords:
        for container in ("mod", "impl"):
            states.append(dict(key="g_%s_%s" % (container, "_".join(w)), kind="sigseq", word=list(w), container=container))
            transitions += 1
    from . import c16
    fwords, t = common.words(c16.SYMS, 2)
    for w in fwords:
        for ctx in ("gen", "nodeps", "mod", "impl"):
            for fname in ("f", "r#type"):
                if not c16.valid(w, fname):
                    continue
                states.append(dict(key="q_%s_%s_%s" % ("_".join(w) or "none", ctx, "raw" if fname != "f" else "f"), kind="fnpat",
                                   word=list(w), ctx=ctx, fname=fname))
                transitions += 1
    return states, transitions, dict(fn_pattern_alphabet=len(c16.SYMS), fn_pattern_word_len=2, attr_token_alphabet=len(TOKENS), attr_word_len=maxlen, item_kinds=list(ITEMS),
                                     misuse_cases=len(MISUSE), trait_pattern_alphabet=len(PATS), trait_pattern_word_len=2)


def render(s):
    key = s["key"]
    if s["kind"] == "sigseq":
        L = ["mod %s {" % key]
        fns = [SIGSHAPES[x].format(n=n) for n, x in enumerate(s["word"])]
        if s["container"] == "mod":
            L += ["    #[::entrait::entrait(pub Tr)]", "    pub mod m {"] + ["        " + f for f in fns] + ["    }"]
        else:
            L += ["    pub struct X;", "    #[::entrait::entrait]", "    impl TrImpl for X {"] + ["        " + f for f in fns] + ["    }"]
        L.append("}")
        return engine.Unit(key, "\n".join(L), None, s)
    if s["kind"] == "fnpat":
        from . import c16
        u = c16.render(dict(s))
        return engine.Unit(key, u.src, None, s)
    L = ["mod %s {" % key]
    if s["kind"] == "attr":
        if s["item"] == "impl":
            L.append("    pub struct X;")
        L.append("    #[::entrait::%s(%s)]" % (s.get("variant", "entrait"), s["text"] if "text" in s else " ".join(TOKENS[i] for i in s["word"])))
        L.append("    " + ITEMS[s["item"]])
    elif s["kind"] == "misuse":
        name, attr, lines, msg, line = next(m for m in MISUSE if m[0] == s["name"])
        L.append("    pub struct X; pub struct Y<T>(T);")
        attr_lines = ("#[::entrait::%s(%s)]" % (s["variant"], attr)).split("\n")
        L += ["    " + a for a in attr_lines]
        L += ["    " + l for l in lines]
    else:
        params = ", ".join("%s: %s" % (PATS[p][0].format(i=i), PATS[p][1]) for i, p in enumerate(s["word"]))
        L.append("    pub struct N(pub i64);")
        L.append("    #[::entrait::entrait(%s)]" % DELEG[s["deleg"]])
        recv = RECVS.get(s.get("recv"), "&self")
        plist = ", ".join(x for x in (recv, params) if x)
        L.append("    pub trait T { fn m(%s) -> i64%s%s }" % (plist, " where Self: Sized" if s.get("recv") else "", " { 0 }" if s["body"] else ";"))
    L.append("}")
    return engine.Unit(key, "\n".join(L), None, s)


def misuse_lines(s):
    """(number of attribute lines, item lines) for locating diagnostics relative to the unit start."""
    name, attr, lines, msg, line = next(m for m in MISUSE if m[0] == s["name"])
    return len(attr.split("\n")), lines, msg, line


def evaluate(states, report, tier):
    units = [render(s) for s in states]
    results = {}
    for kind in ("attr", "misuse", "traitpat", "fnpat", "sigseq"):
        group = [u for s, u in zip(states, units) if s["kind"] == kind]
        if not group:
            continue
        # misuse cases get a compiler process each: some are rejected by rustc's own parser, which is fatal for the crate
        size = 1 if kind == "misuse" else max(1, (len(group) + 31) // 32)
        res, stats = engine.execute(group, feature=False, mode="expand", shard_size=size)
        report.phases.append(dict(stats, kind=kind, states=len(group)))
        results.update(res)
    reqs, keys = [], []
    for s in states:
        for j, r in enumerate(results[s["key"]].records):
            if "output_tt" in r:
                reqs.append(dict(op="file", tt=r["output_tt"]))
                keys.append((s["key"], j))
    parsed = {}
    for k, resp in zip(keys, engine.tokview(reqs)):
        parsed[k] = "error" not in resp, resp.get("error")
    for s, u in zip(states, units):
        res = results[s["key"]]
        problems = []
        recs = res.records
        outcome = "accepted"
        if not recs:
            if s["kind"] == "misuse" and res.errors:
                outcome = "rejected-by-rustc-before-expansion"   # the compiler never handed it to the macro
            else:
                problems.append(("no-record", "the macro was not invoked?"))
        for j, r in enumerate(recs):
            if "panic" in r:
                problems.append(("macro-panic", "attr `%s` input `%s`: %s" % (r["attr"], r["input"][:200], r["panic"])))
                outcome = "panic"
                continue
            ok, err = parsed.get((s["key"], j), (False, "not parsed"))
            if not ok:
                problems.append(("unparsable-output", "%s\n%s" % (err, r["output"][:500])))
            if "compile_error" in engine.tt_flat_idents(r["output_tt"][:8]):
                outcome = "rejected"
        if any("panicked" in e["message"] for e in res.errors):
            if not any(p[0] == "macro-panic" for p in problems):
                problems.append(("macro-panic", "rustc: " + [e["message"] for e in res.errors if "panicked" in e["message"]][0]))
        if outcome == "rejected" and not res.errors:
            problems.append(("rejection-not-reported-in-invocation", "compile_error emitted but rustc reported nothing inside this invocation's lines"))
        obs = dict(outcome=outcome)
        model = "no panic, parsable, rejection reported inside the invocation"
        if s["kind"] == "misuse":
            nattr, lines, msg, line = misuse_lines(s)
            model = dict(message=msg, line=line)
            if msg == "<accepted>":
                if outcome != "accepted":
                    problems.append(("valid-input-rejected", str(res.brief_errors()[:2])))
            else:
                if msg is not None and outcome != "rejected-by-rustc-before-expansion":
                    hits = [e for e in res.errors if msg in e["message"]]
                    obs["specific_message"] = bool(hits)
                    if not hits:
                        problems.append(("specific-message-missing:" + s["name"], "expected `%s`, rustc said %s" % (msg, res.brief_errors()[:3])))
                    elif line is not None:
                        # unit line 1 = `mod key {`, line 2 = helper structs, then attribute lines, then item lines
                        want = 3 + (nattr - 1 if line == -1 else nattr + line)
                        got = [e.get("rel_line") for e in hits]
                        obs["line_ok"] = want in got
                        if want not in got:
                            problems.append(("diagnostic-not-at-offending-tokens:" + s["name"], "reported at unit line(s) %s, offending tokens are on line %d" % (got, want)))
        report.observe(s["key"], model, obs if not problems else dict(obs, problems=sorted(set(p[0] for p in problems))),
                       nontrivial=(s["kind"] != "attr" or len(s["word"]) > 0),
                       sample=dict(source=u.src, diagnostics=res.brief_errors()[:3]))
        seen = set()
        for sig, detail in problems:
            if sig in seen:
                continue
            seen.add(sig)
            tags = {"kind:" + s["kind"]}
            if s["kind"] == "attr":
                tags |= {"item:" + s["item"]} | {"tok:" + TOKENS[i] for i in s["word"]} | ({"optlist:" + s["text"]} if "text" in s else set())
            elif s["kind"] == "misuse":
                tags |= {"case:" + s["name"]}
            elif s["kind"] == "sigseq":
                tags |= {"sig:" + x for x in s["word"]} | {"container:" + s["container"]}
            elif s["kind"] == "fnpat":
                tags |= {"pat:" + p for p in s["word"]} | {"ctx:" + s["ctx"], "fname:" + s["fname"]}
            else:
                tags |= {"pat:" + p for p in s["word"]} | {"deleg:" + s["deleg"], "body" if s["body"] else "decl", "recv:" + s.get("recv", "ref")}
            report.violation(s["key"], tags, sig, detail, state=s, source=engine.standalone_source(u), meta=dict(mode="expand"))


def run(report, tier):
    states, transitions, bound = enumerate_states(tier)
    report.space(len(states), transitions, bound,
                 "(i) all attribute token words over %s on four item kinds; (ii) %d misuse / unsupported-item cases x 2 macro names; "
                 "(iii) trait-method pattern words over %s x body x delegation kinds %s; non-trivial = non-empty word / any misuse case"
                 % (TOKENS, len(MISUSE), list(PATS), list(DELEG)))
    common.evaluate_chunked(evaluate, states, report, tier)
