"""C04 - dependency bounds bubble up exactly: implemented iff the deps are satisfied.

State  = (declared bound set S of {B0,B1,B2}, declaration form, receiver by ref / by value, container
          {single fn, module of two fns with sets S1,S2}, mock setting, crate feature).
Probes = for every P of the 8 subsets x 3 auto-trait flavours {full, Sync-only ("bare": !Send !Unpin !Clone ..),
          Send-only (!Sync)} a type implementing exactly P, asked both as `X` and as `Impl<X>`:
          48 runtime booleans `implements!(X: Tr)` per state (no compile errors involved).
Model  = available <=> P >= S and Sync and (Send if a receiver is taken by value); a trait without mock
          support is implemented for every qualifying type, a mockable one for Impl<T> only.
"""
import itertools

from .. import engine, common

ID = "C04"
FLAVS = ["full", "bare", "notsync"]
FORMS = ["inline", "where", "impl", "split", "dup", "relaxed", "implrelaxed"]   # the last two: `?Sized` next to the bounds (lifts a requirement, adds none)
MOCKS = ["none", "mockall", "mockall_false", "api_only", "unimock", "unimock_false", "mockall_unimock_false", "api_mockall_false", "unimock_export_noapi"]
# two of the three bounds are instantiations of ONE generic trait: a bound is its whole path, generic arguments included
BN = ["B0", "G<u8>", "G<u16>"]
# second naming scheme: two DIFFERENT traits whose paths end in the same segment (a bound is its whole path, not its last segment)
BN2 = ["ma::Rep", "mb::Rep", "G<u16>"]


def header():
    L = ["pub mod pr {", "    use super::rt;", "    pub trait B0 {} pub trait G<T> {}", "    pub mod ma { pub trait Rep {} } pub mod mb { pub trait Rep {} }"]
    field = {"full": "()", "bare": "rt::BareMarker", "notsync": "rt::NotSyncMarker"}
    for mask in range(8):
        for fl in FLAVS:
            t = "T%d%s" % (mask, fl)
            L.append("    pub struct %s(pub %s);" % (t, field[fl]))
            for b in range(3):
                if mask & (1 << b):
                    L.append("    impl %s for %s {} impl %s for ::entrait::Impl<%s> {}" % (BN[b], t, BN[b], t))
                    if BN2[b] != BN[b]:
                        L.append("    impl %s for %s {} impl %s for ::entrait::Impl<%s> {}" % (BN2[b], t, BN2[b], t))
    L.append("}")
    return "\n".join(L) + "\n"


SCHEME = [BN]


def bounds(mask):
    return [SCHEME[0][b] for b in range(3) if mask & (1 << b)]


def fn_src(name, mask, form, byval, vis="pub ", asy=False):
    if asy:
        vis = vis + "async "
    bs = bounds(mask)
    ty = "D" if byval else "&D"
    if form == "implrelaxed":
        return "%sfn %s(deps: &(impl %s)) -> u8 { 0 }" % (vis, name, " + ".join(bs + ["?Sized"]))
    if form == "relaxed":
        return "%sfn %s<D: %s>(deps: &D) -> u8 { 0 }" % (vis, name, " + ".join(bs + ["?Sized"]))
    if form == "impl":
        b = " + ".join(bs) if bs else "Sized"
        dep = ("impl %s" % b) if byval else ("&(impl %s)" % b)
        return "%sfn %s(deps: %s) -> u8 { 0 }" % (vis, name, dep)
    if form == "inline":
        g = "<D: %s>" % " + ".join(bs) if bs else "<D>"
        return "%sfn %s%s(deps: %s) -> u8 { 0 }" % (vis, name, g, ty)
    if form == "where":
        w = " where D: %s" % " + ".join(bs) if bs else ""
        return "%sfn %s<D>(deps: %s) -> u8%s { 0 }" % (vis, name, ty, w)
    if form == "split":
        a, b = bs[:len(bs) // 2 + len(bs) % 2], bs[len(bs) // 2 + len(bs) % 2:]
        g = "<D: %s>" % " + ".join(a) if a else "<D>"
        w = " where D: %s" % " + ".join(b) if b else ""
        return "%sfn %s%s(deps: %s) -> u8%s { 0 }" % (vis, name, g, ty, w)
    if form == "dup":
        g = "<D: %s>" % " + ".join(bs) if bs else "<D>"
        w = " where D: %s" % " + ".join(bs) if bs else ""
        return "%sfn %s%s(deps: %s) -> u8%s { 0 }" % (vis, name, g, ty, w)
    raise KeyError(form)


def attr(mock, maybe_send=False):
    a = {"none": "", "mockall": ", mockall", "mockall_false": ", mockall = false", "api_only": ", mock_api = TrMock",
         "unimock": ", mock_api = TrMock, unimock", "unimock_false": ", mock_api = TrMock, unimock = false",
         # one framework switched off explicitly must not cancel the other
         "mockall_unimock_false": ", unimock = false, mockall", "api_mockall_false": ", mock_api = TrMock, mockall = false",
         # unimock switched on and mocks exported, but no mock API named: no mock support is generated, so every qualifying type implements the trait
         "unimock_export_noapi": ", unimock, export"}[mock]
    return "#[::entrait::entrait(pub Tr%s%s)]" % (a, ", ?Send" if maybe_send else "")


def enumerate_states(tier):
    states = []
    for mask, form, byval, mock, feature, asy in itertools.product(range(8), FORMS, (False, True), MOCKS, (False, True), (False, True, "ms")):
        if mock in ("unimock", "unimock_export_noapi") and not feature:
            continue  # the unimock derive needs the crate feature
        if byval and form in ("relaxed", "implrelaxed"):
            continue  # an unsized dependency cannot be taken by value
        if asy and (tier != "thorough") and (mock not in ("none", "mockall") or form in ("split", "dup", "relaxed", "implrelaxed")):
            continue  # async / async + ?Send: on the main mock settings and declaration forms
        states.append(dict(key="b_fn_%d_%s_%s_%s_%s%s" % (mask, form, "val" if byval else "ref", mock, "fon" if feature else "foff",
                                                         {False: "", True: "_async", "ms": "_asyncms"}[asy]),
                           container="fn", s1=mask, form=form, byval=[byval], mock=mock, feature=feature, asy=asy))
    for m1, m2, bv, mock in itertools.product(range(8), range(8), ((False, False), (False, True), (True, False)), ("none", "mockall", "api_only")):
        for feature in ((False, True) if tier == "thorough" else (False,)):
            states.append(dict(key="b_mod_%d_%d_%s%s_%s_%s" % (m1, m2, "v" if bv[0] else "r", "v" if bv[1] else "r", mock, "fon" if feature else "foff"),
                               container="mod", s1=m1, s2=m2, byval=list(bv), mock=mock, feature=feature))
            if mock == "none" and not feature:
                # the same module with the second naming scheme, and with an (enabled) #[cfg] on each of the two functions in turn
                states.append(dict(key="b_mod_%d_%d_%s%s_n2" % (m1, m2, "v" if bv[0] else "r", "v" if bv[1] else "r"),
                                   container="mod", s1=m1, s2=m2, byval=list(bv), mock=mock, feature=feature, scheme=2))
                if m1 in (0, 3) and m2 in (0, 5):
                    for which in (1, 2):
                        states.append(dict(key="b_mod_%d_%d_%s%s_cfg%d" % (m1, m2, "v" if bv[0] else "r", "v" if bv[1] else "r", which),
                                           container="mod", s1=m1, s2=m2, byval=list(bv), mock=mock, feature=feature, cfg_on=which))
                        # .. and with a DISABLED #[cfg] on it: that function does not exist, its bounds are not declared in this build
                        states.append(dict(key="b_mod_%d_%d_%s%s_off%d" % (m1, m2, "v" if bv[0] else "r", "v" if bv[1] else "r", which),
                                           container="mod", s1=m1, s2=m2, byval=list(bv), mock=mock, feature=feature, cfg_off=which))
    for mask, form, byval in itertools.product(range(8), ("inline", "where", "impl", "split"), (False, True)):
        states.append(dict(key="b_fn_%d_%s_%s_n2" % (mask, form, "val" if byval else "ref"), container="fn", s1=mask, form=form, byval=[byval],
                           mock="none", feature=False, asy=False, scheme=2))
    if tier == "thorough":
        for m1, m2, m3 in itertools.product(range(8), repeat=3):
            states.append(dict(key="b_mod3_%d_%d_%d" % (m1, m2, m3), container="mod3", s1=m1, s2=m2, s3=m3, byval=[False, False, False],
                               mock="none", feature=False))
    for form in FORMS:
        states.append(dict(key="b_static_%s" % form, container="static", s1=1, form=form, byval=[False], mock="none", feature=False))
    transitions = len(states) * 3
    return states, transitions, dict(bounds=3, forms=FORMS, mocks=MOCKS, probes_per_state=48)


def mockable(s):
    m = s["mock"]
    if m in ("mockall", "mockall_unimock_false"):
        return True
    if m == "api_mockall_false":
        return s["feature"]      # mockall is off, unimock comes from the crate feature
    if m == "unimock":
        return True
    if m == "api_only":
        return s["feature"]      # the crate feature switches unimock on
    return False                 # none, mockall = false, unimock = false: no mock support


def model(s):
    if s["container"] == "static":
        return dict(static_probe_rejected=True)
    need = s["s1"] | s.get("s2", 0) | s.get("s3", 0)
    byval = any(s["byval"])
    if s.get("cfg_off"):
        keep = 2 if s["cfg_off"] == 1 else 1
        need = s["s%d" % keep]
        byval = s["byval"][keep - 1]
    bits = []
    for mask in range(8):
        for fl in FLAVS:
            ok = (mask & need) == need and fl != "notsync" and (fl == "full" or not byval)
            plain = ok and not mockable(s)
            bits.append("1" if plain else "0")
            bits.append("1" if ok else "0")
    return dict(bits="".join(bits))


def render(s):
    key = s["key"]
    SCHEME[0] = BN2 if s.get("scheme") == 2 else BN
    try:
        return render_(s)
    finally:
        SCHEME[0] = BN


def render_(s):
    key = s["key"]
    L = ["mod %s {" % key, "    use super::rt;", "    use super::pr::*;"]
    if s["container"] == "fn" or s["container"] == "static":
        L += ["    " + attr(s["mock"], s.get("asy") == "ms"), "    " + fn_src("f", s["s1"], s["form"], s["byval"][0], asy=bool(s.get("asy")))]
    else:
        L += ["    " + attr(s["mock"]), "    pub mod m {", "        use super::*;",
              "        " + ("#[cfg(all())] " if s.get("cfg_on") == 1 else "#[cfg(any())] " if s.get("cfg_off") == 1 else "") + fn_src("f1", s["s1"], "inline", s["byval"][0]),
              "        " + ("#[cfg(all())] " if s.get("cfg_on") == 2 else "#[cfg(any())] " if s.get("cfg_off") == 2 else "") + fn_src("f2", s["s2"], "where", s["byval"][1])]
        if s["container"] == "mod3":
            L.append("        " + fn_src("f3", s["s3"], "impl", s["byval"][2]))
        L.append("    }")
    if s["container"] == "static":
        # negative compile probe: a non-'static application type must be rejected
        L += ["    pub struct Borrowed<'a>(pub &'a u8);", "    impl<'a> B0 for Borrowed<'a> {} impl<'a> B0 for ::entrait::Impl<Borrowed<'a>> {}",
              "    fn need<T: Tr>(_: &T) {}",
              "    pub fn probe<'a>(x: &'a u8) { let b = ::entrait::Impl::new(Borrowed(x)); need(&b); }",
              "    pub fn client() { let v = 1u8; probe(&v); }", "}"]
        return engine.Unit(key, "\n".join(L), 'rt::run("%s", %s::client);' % (key, key), s)
    L.append("    pub fn client() {")
    L.append("        let mut bits = String::new();")
    for mask in range(8):
        for fl in FLAVS:
            t = "T%d%s" % (mask, fl)
            L.append("        bits.push(if implements!(%s: Tr) { '1' } else { '0' }); bits.push(if implements!(::entrait::Impl<%s>: Tr) { '1' } else { '0' });" % (t, t))
    L += ['        rt::out("bits", bits);', "    }", "}"]
    return engine.Unit(key, "\n".join(L), 'rt::run("%s", %s::client);' % (key, key), s)


def explain(got, want):
    out = []
    i = 0
    for mask in range(8):
        for fl in FLAVS:
            for form in ("X", "Impl<X>"):
                if i < len(got) and got[i] != want[i]:
                    out.append("%s with X implementing %s, flavour %s: implemented=%s, model says %s"
                               % (form, bounds(mask) or "nothing", fl, got[i], want[i]))
                i += 1
    return out


def evaluate(states, report, tier):
    hdr = header()
    for feature in (False, True):
        group = [s for s in states if s["feature"] == feature]
        if not group:
            continue
        units = [render(s) for s in group]
        results, stats = engine.execute(units, feature=feature, mode="run", header=hdr)
        report.phases.append(dict(feature=feature, states=len(group), **stats))
        for s, u in zip(group, units):
            res = results[s["key"]]
            m = model(s)
            problems = []
            obs = {}
            if s["container"] == "static":
                obs["static_probe_rejected"] = bool(res.errors)
                if not res.errors:
                    problems.append(("non-static-app-accepted", "Impl<Borrowed<'a>> was accepted as an implementor"))
                elif not any(("lifetime" in e["message"] or "borrowed data escapes" in e["message"] or "does not live long enough" in e["message"]) for e in res.errors):
                    problems.append(("static-probe-unexpected-error", str(res.brief_errors()[:3])))
            elif res.errors:
                problems.append((res.compile_sig(s["key"]), "\n".join(res.brief_errors()[:5])))
            elif res.crashed or "__panic" in res.out:
                problems.append(("client-crash", str(res.crashed or res.out.get("__panic"))))
            else:
                got = res.first("bits", "")
                obs["bits"] = got
                if got != m["bits"]:
                    ex = explain(got, m["bits"])
                    added = any("implemented=0" in e for e in ex)
                    dropped = any("implemented=1" in e for e in ex)
                    sig = "availability:" + ("both" if added and dropped else "requirement-added-or-impl-missing" if added else "requirement-dropped-or-impl-too-wide")
                    problems.append((sig, "\n".join(ex[:12])))
            report.observe(s["key"], m, obs if not problems else dict(obs, problems=[p[0] for p in problems]), nontrivial=True,
                           sample=dict(source=u.src.replace("\n        bits.push", " bits.push")[:1500]), evals=48)
            for sig, detail in problems:
                tags = {"container:" + s["container"], "mock:" + s["mock"], "feature:" + ("on" if feature else "off"),
                        "byval" if any(s["byval"]) else "byref", "form:" + s.get("form", "mixed"),
                        {False: "sync", True: "async", "ms": "async-maybe-send", None: "sync"}[s.get("asy")],
                        "names:" + ("same-last-segment" if s.get("scheme") == 2 else "default"), "cfg-on-fn:%s" % (s.get("cfg_on") or "none"), "cfg-off-fn:%s" % ("yes" if s.get("cfg_off") else "no")}
                report.violation(s["key"], tags, sig, detail, state=s, source=engine.standalone_source(u, hdr),
                                 meta=dict(mode="run", feature=feature))


def run(report, tier):
    states, transitions, bound = enumerate_states(tier)
    report.space(len(states), transitions, bound,
                 "all subsets S of 3 bounds x 5 declaration forms x by-ref/by-value x 6 mock settings x feature (single fn); all pairs (S1,S2) "
                 "x receiver combinations x mock settings (module); 48 availability probes per state; every state non-trivial")
    evaluate(states, report, tier)
