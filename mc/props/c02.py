"""C02 - append-only: the annotated fn / mod / impl is emitted unchanged, generated code comes after.

Three explicit state spaces, all pushed through the real macro (recorder hook), compared at the
proc-macro API token level (the recorder writes the token trees exactly as the API presents them):

  fn   : default fn + <= k deviations over 8 syntactic dimensions
  mod  : module item words over the 24-symbol item alphabet
  impl : impl-block item words over 6 symbols

Model = identity: input tokens are a prefix of the output (fn), the module's items are a prefix of
the output module's items followed only by generated items and a re-export (mod), the impl block's
items are the inherent impl's items (impl).  Punctuation spacing is compared inside opaque regions
(brace groups: bodies, unknown items) and ignored in syn-reprinted regions (signatures), where syn
normalises it.
"""
import itertools

from .. import engine, common, gen

ID = "C02"

ATTRS = {"doc": "/// some doc", "allow": "#[allow(unused)]", "inline": "#[inline]", "cfg": "#[cfg(all())]",
         "helper": "#[verif_helper::id]"}
ATTR_WORDS = [()] + [(a,) for a in ATTRS] + [(a, b) for a in ATTRS for b in ATTRS]

BODIES = [
    "{ 1 }",
    "{}",
    "{ fn inner(x: u8) -> u8 { x } struct Local { a: u8 } impl Local { fn m(&self) {} } 1 }",
    "{ let c = |x: i64| { x + 1 }; let d = move || { { { } } }; c(1) }",
    "{ m! { @ # $ => ;; } ; n![ a += b -= c <<= 2 ]; o!( 'a 'static .. ..= ... :: ) ; 1 }",
    "{ 'outer: loop { break 'outer; } 'b: { break 'b; } 1 }",
    "{ let Some(x) = Some(1i64) else { return 0 }; x }",
    "{ let _ = const { 1 + 1 }; let _ = async { 1 }; let _ = unsafe { 1 }; 1 }",
    "{ #![allow(unused)] #[cfg(any())] { bogus tokens here } 1 }",
    "{ let s = \"} { ; \"; let r = r#\"}\"#; let c = '}'; let b = b\"{;\"; let f = 1.5e3f64; let t = (1,).0; a<<=b; x>>y; p&&q; 1 }",
]

FN_DIMS = {
    "above": ATTR_WORDS,
    "below": ATTR_WORDS,
    "vis": ["", "pub", "pub(crate)", "pub(super)", "pub(in crate::KEY)"],
    "qual": ["", "async", "unsafe", 'extern "C"', "async unsafe", 'unsafe extern "C"', "const"],
    "generics": [("", ""), ("<T>", ""), ("<T: Clone>", ""), ("<'a>", ""), ("<T>", "where T: Clone"), ("<const N: usize>", "")],
    "params": ["a: i64", "a: i64,", "#[allow(unused)] a: i64", "a: i64, b: &str", ""],
    "ret": ["-> i64", "", "-> (i64, i64)", "-> impl Sized", "-> Result<i64, ()>"],
    "body": BODIES,
}
DIM_ORDER = ["above", "below", "vis", "qual", "generics", "params", "ret", "body"]

IMPL_ATTRS = {
    "doc": ["/// block doc"], "automock": ["#[verif_helper::automock]"], "asynctrait": ["#[::async_trait::async_trait]"],
    "mix": ["#[verif_helper::id]", "#[::async_trait::async_trait]", "#[verif_helper::automock]", "#[cfg(all())]"],
}
IMPL_ITEMS = {
    "fn": "fn i{n}(deps: &impl ::core::any::Any) -> u32 {{ {n} }}",
    "pubfn": "pub fn i{n}(deps: &impl ::core::any::Any) -> u32 {{ {n} }}",
    "async": "async fn i{n}(deps: &impl ::core::any::Any) -> u32 {{ {n} }}",
    "attr": "#[inline] /** doc */ fn i{n}(deps: &impl ::core::any::Any) -> u32 {{ {n} }}",
    "const": "const C{n}: u8 = {{ 1 }};",
    "bodyless": "fn d{n}(deps: &impl ::core::any::Any);",
    "pubbodyless": "#[cfg(any())] pub(crate) fn e{n}(deps: &impl ::core::any::Any);",
}


# ---------------------------------------------------------------------------------------------
# enumeration
# ---------------------------------------------------------------------------------------------

def fn_states(maxdev):
    states = []
    transitions = 0
    dims = DIM_ORDER
    for k in range(0, maxdev + 1):
        for combo in itertools.combinations(range(len(dims)), k):
            ranges = [range(1, len(FN_DIMS[dims[d]])) for d in combo]
            for choice in itertools.product(*ranges):
                dev = {dims[d]: c for d, c in zip(combo, choice)}
                key = "fn_" + ("_".join("%s%d" % (d[:2], dev[d]) for d in dims if d in dev) or "default")
                states.append(dict(key=key, mode="fn", dev=dev))
                transitions += k  # k incoming 'change one dimension' edges from states with k-1 deviations
    return states, transitions


def mod_states(maxlen):
    words, transitions = common.words(gen.MOD_ITEM_ORDER, maxlen)
    states = [dict(key="mod_" + ("_".join(w) or "empty"), mode="mod", items=list(w)) for w in words]
    for w in words:
        if len(w) <= 1:
            states.append(dict(key="modinner_" + ("_".join(w) or "empty"), mode="mod", items=list(w), inner=True, may_be_rejected=True))
    return states, transitions


def impl_states(maxlen):
    words, transitions = common.words(list(IMPL_ITEMS), maxlen)
    states = []
    for w in words:
        for kind in ("static", "ref"):
            states.append(dict(key="impl_%s_%s" % (kind, "_".join(w) or "empty"), mode="impl", items=list(w), kind=kind))
            if len(w) <= 1:
                # attributes below entrait on the block: everything except async_trait stays on the inherent impl
                for av in IMPL_ATTRS:
                    states.append(dict(key="impl_%s_%s_at%s" % (kind, "_".join(w) or "empty", av), mode="impl", items=list(w), kind=kind, attrs=av))
    return states, transitions * 2


STAMPED = {
    # macro_rules fragments reach the macro as invisible (None-delimited) groups: they must pass through untouched
    "mod_const": "macro_rules! mk { ($e:expr, $t:ty, $b:block) => { #[::entrait::entrait(pub Tr)] pub mod m { pub const K: $t = $e * 2; pub static S: $t = $e; pub fn a(deps: &impl ::core::any::Any) -> $t $b pub fn b(deps: &impl ::core::any::Any) -> $t { $e } } } }\n    mk!(1 + 2, u32, { 7 });",
    "impl_const": "pub struct X; macro_rules! mk { ($e:expr, $t:ty) => { #[::entrait::entrait] impl TrImpl for X { const K: $t = $e * 2; fn a(deps: &impl ::core::any::Any) -> $t { $e } } } }\n    mk!(1 + 2, u32);",
    "fn_body": "macro_rules! mk { ($e:expr, $t:ty, $p:pat) => { #[::entrait::entrait(Tr)] pub fn f(deps: &impl ::core::any::Any, $p: $t) -> $t { $e * 2 } } }\n    mk!(1 + 2, u32, x);",
}


def stamped_states():
    return [dict(key="st_" + k, mode="stamped", which=k) for k in STAMPED], len(STAMPED)


def enumerate_states(tier):
    if tier == "thorough":
        fdev, mlen, ilen = 3, 3, 4
    else:
        fdev, mlen, ilen = 2, 2, 3
    fs, ft = fn_states(fdev)
    ms, mt = mod_states(mlen)
    is_, it = impl_states(ilen)
    ss, st = stamped_states()
    is_, it = is_ + ss, it + st
    return fs + ms + is_, ft + mt + it, dict(fn_deviations=fdev, mod_item_word_len=mlen, impl_item_word_len=ilen,
                                             fn_states=len(fs), mod_states=len(ms), impl_states=len(is_))


# ---------------------------------------------------------------------------------------------
# rendering
# ---------------------------------------------------------------------------------------------

def render(s):
    key = s["key"]
    L = ["mod %s {" % key]
    if s["mode"] == "fn":
        dv = {d: FN_DIMS[d][s["dev"].get(d, 0)] for d in DIM_ORDER}
        for a in dv["above"]:
            L.append("    " + ATTRS[a])
        L.append("    #[::entrait::entrait(Tr)]")
        for a in dv["below"]:
            L.append("    " + ATTRS[a])
        gp, wh = dv["generics"]
        params = "deps: &impl ::core::any::Any" + (", " + dv["params"] if dv["params"] else "")
        L.append("    %s %s fn f%s(%s) %s %s %s" % (dv["vis"].replace("KEY", key), dv["qual"], gp, params, dv["ret"], wh, dv["body"]))
    elif s["mode"] == "stamped":
        L.append("    " + STAMPED[s["which"]])
    elif s["mode"] == "mod":
        L.append("    /// module doc")
        L.append("    #[::entrait::entrait(pub Tr)]")
        L.append("    #[allow(unused)]")
        L.append("    pub mod m {")
        if s.get("inner"):
            L.append("    #![allow(dead_code)]")
            L.append("    //! inner module doc")
        for n, sym in enumerate(s["items"], 1):
            L.append("    " + gen.mod_item_src(sym, n, key))
        L.append("    }")
    else:
        L.append("    pub struct X;")
        L.append("    #[::entrait::entrait(%s)]" % ("ref" if s["kind"] == "ref" else ""))
        L.append("    #[allow(unused)]")
        L += ["    " + a for a in IMPL_ATTRS.get(s.get("attrs"), [])]
        L.append("    impl TrImpl for X {")
        for n, sym in enumerate(s["items"], 1):
            L.append("        " + IMPL_ITEMS[sym].format(n=n))
        L.append("    }")
    L.append("}")
    return engine.Unit(key, "\n".join(L), None, s)


# ---------------------------------------------------------------------------------------------
# oracle
# ---------------------------------------------------------------------------------------------

def flat_all(tt):
    """Remove invisible (None-delimited) groups, recursively (used for syn-reprinted regions only)."""
    out = []
    for t in tt:
        if t[0] == "g" and t[1] == "":
            out.extend(flat_all(t[2]))
        elif t[0] == "g" and t[1] != "{":
            out.append(["g", t[1], flat_all(t[2])])
        else:
            out.append(t)
    return out


def flatten_signatures(tt):
    """syn looks through invisible groups when it parses a signature and does not re-emit them: between `fn` and the
    body (or `;`) they are not compared.  Everywhere else (bodies, opaque items) they are."""
    out, in_sig = [], False
    for t in tt:
        if t[0] == "i" and t[1] == "fn":
            in_sig = True
            out.append(t)
        elif in_sig and ((t[0] == "g" and t[1] == "{") or (t[0] == "p" and t[1] == ";")):
            in_sig = False
            out.append(t)
        elif in_sig:
            out.extend(flat_all([t]))
        else:
            out.append(t)
    return out


def norm(tt, strict_braces=True, top=True):
    """Comparable form: spacing kept only inside brace groups (opaque pass-through regions)."""
    out = []
    if top:
        tt = flatten_signatures(tt)
    for t in tt:
        if t[0] == "p":
            out.append(("p", t[1]))
        elif t[0] == "g":
            if t[1] == "{" and strict_braces:
                out.append(("g", "{", engine.tt_strict(t[2])))
            else:
                out.append(("g", t[1], norm(t[2], strict_braces, False)))
        else:
            out.append((t[0], t[1]))
    return tuple(out)


def walk(tt):
    for t in tt:
        yield t
        if t[0] == "g":
            yield from walk(t[2])


def first_diff(a, b):
    for i, (x, y) in enumerate(zip(a, b)):
        if x != y:
            return i
    return min(len(a), len(b))


def describe(tt_norm, i):
    def one(t):
        if t[0] == "g":
            return t[1] + "..."
        return t[1]
    return " ".join(one(t) for t in tt_norm[max(0, i - 3):i + 4])


def split_items(tt):
    """Split a module/impl body token list into items the way rustc would for our alphabet:
    an item ends at a top-level `;` or at a brace group that is not followed by more of the same item
    (`= { 1 } + { 2 };`)."""
    items, cur = [], []
    i = 0
    n = len(tt)
    while i < n:
        t = tt[i]
        cur.append(t)
        if t[0] == "p" and t[1] == ";":
            items.append(cur)
            cur = []
        elif t[0] == "g" and t[1] == "{":
            # item continues only if we are inside an initializer expression (saw `=` at top level in cur)
            in_expr = any(x[0] == "p" and x[1] == "=" for x in cur[:-1]) and not any(
                x[0] == "i" and x[1] in ("fn", "mod", "impl", "trait", "struct", "macro_rules") for x in cur[:-1])
            if not in_expr:
                items.append(cur)
                cur = []
        i += 1
    if cur:
        items.append(cur)
    return items


def check_state(s, res, parsed):
    """-> list of (signature, detail). `parsed`: tokview 'file' view of the residual generated part (or None)."""
    recs = [r for r in res.records if r["attr"].strip() in ("Tr", "pub Tr", "", "ref")]
    if len(recs) != 1:
        return [("recorder:%d-records" % len(recs), "expected exactly one entrait invocation record")]
    r = recs[0]
    if "panic" in r:
        return [("macro-panic", r["panic"])]
    it, ot = r["input_tt"], r["output_tt"]
    if "compile_error" in engine.tt_flat_idents(ot[:8]):
        if s.get("may_be_rejected"):
            return []          # the macro does not accept this input: nothing is emitted, nothing can be altered
        return [("accepted-input-rejected", r.get("output", "")[:200])]
    if s["mode"] == "stamped":
        # every token of the input - invisible groups included - must reappear: fn -> prefix; mod/impl -> body prefix / equal
        kind = {"mod_const": "mod", "impl_const": "impl", "fn_body": "fn"}[s["which"]]
        if not any(t[0] == "g" and t[1] == "" for t in walk(it)):
            return [("stamped-input-has-no-invisible-group", "the scaffold no longer exercises None-delimited groups")]
        return check_state(dict(s, mode=kind, items=[], dev={}), res, parsed)
    if s["mode"] == "fn":
        a, b = norm(it), norm(ot)
        if b[:len(a)] != a:
            i = first_diff(a, b)
            return [("fn-not-a-prefix:" + classify_fn_diff(a, b, i), "input  ... %s\noutput ... %s" % (describe(a, i), describe(b, i)))]
        return []
    if s["mode"] == "mod":
        # input: attrs.. pub mod m { items }
        gi = next((i for i, t in enumerate(it) if t[0] == "g" and t[1] == "{"), None)
        go = next((i for i, t in enumerate(ot) if t[0] == "g" and t[1] == "{"), None)
        if gi is None or go is None:
            return [("mod-shape", "no module brace group in input/output")]
        if norm(it[:gi]) != norm(ot[:go]):
            return [("mod-header-changed", "%s vs %s" % (engine.tt_str(it[:gi]), engine.tt_str(ot[:go])))]
        a, b = norm(it[gi][2]), norm(ot[go][2])
        if b[:len(a)] != a:
            i = first_diff(a, b)
            return [("mod-items-not-a-prefix", "input  ... %s\noutput ... %s" % (describe(a, i), describe(b, i)))]
        problems = []
        # residual inside the module: only generated trait + impl
        resid = parsed.get("inner")
        if resid is None or "error" in resid:
            problems.append(("mod-generated-part-unparsable", str(resid)))
        else:
            kinds = [(x["k"], x.get("ident") or x.get("trait")) for x in resid["items"]]
            if kinds != [("trait", "Tr"), ("impl", "Tr")]:
                problems.append(("mod-generated-part-unexpected-items", str(kinds)))
        after = parsed.get("after")
        if after is None or "error" in after:
            problems.append(("mod-after-unparsable", str(after)))
        else:
            ks = [(x["k"], x.get("tree")) for x in after["items"]]
            if ks != [("use", "m :: Tr")]:
                problems.append(("mod-after-module-unexpected", str(ks)))
        return problems
    # impl mode: output = [attrs] impl X { items }  impl .. TrImpl<EntraitT> for X { .. }
    gi = next((i for i, t in enumerate(it) if t[0] == "g" and t[1] == "{"), None)
    go = next((i for i, t in enumerate(ot) if t[0] == "g" and t[1] == "{"), None)
    if gi is None or go is None:
        return [("impl-shape", "no brace group")]
    a, b = norm(it[gi][2]), norm(ot[go][2])
    if a != b:
        i = first_diff(a, b)
        return [("impl-items-changed", "input  ... %s\noutput ... %s" % (describe(a, i), describe(b, i)))]
    head_in = engine.tt_str(it[:gi])
    head_out = engine.tt_str(ot[:go])
    # (async_trait is the one attribute that moves to the generated trait impl instead)
    want = head_in.replace("TrImpl for ", "").replace("# [ :: async_trait :: async_trait ] ", "")
    if head_out != want:
        return [("impl-header-changed", "%r vs expected %r" % (head_out, want))]
    after = parsed.get("after")
    if after is None or "error" in after:
        return [("impl-after-unparsable", str(after))]
    ks = [(x["k"], x.get("trait")) for x in after["items"]]
    if len(ks) != 1 or ks[0][0] != "impl" or not (ks[0][1] or "").startswith("TrImpl"):
        return [("impl-after-unexpected", str(ks))]
    return []


def classify_fn_diff(a, b, i):
    """A short stable class of the first difference (for known-finding signatures)."""
    if i < len(a):
        t = a[i]
        if t[0] == "i" and t[1] in ("unsafe", "async", "const", "extern", "pub", "fn", "where"):
            return "lost-" + t[1]
        if t[0] == "p" and t[1] == "#":
            return "lost-attribute"
        if t[0] == "g" and t[1] == "{":
            return "body-changed"
        return "token-%s" % t[0]
    return "truncated"


def tags_of(s):
    t = {"mode:" + s["mode"]}
    if s["mode"] == "stamped":
        return t | {"stamped:" + s["which"]}
    if s["mode"] == "fn":
        for d, c in s["dev"].items():
            t.add("%s:%d" % (d, c))
            if d == "qual":
                t.add("qual:" + FN_DIMS["qual"][c].replace(' "C"', "").replace(" ", "-"))
    else:
        for x in s["items"]:
            t.add("item:" + x)
    return t


def evaluate(states, report, tier):
    helper = engine.build_helper_macros()
    units = [render(s) for s in states]
    results, stats = engine.execute(units, feature=False, mode="expand",
                                    extra_externs=[("verif_helper", helper)], shard_size=max(1, min(600, (len(units) + 15) // 16)))
    report.phases.append(dict(stats))
    # residual parsing requests for mod / impl states
    reqs, where = [], []
    for s in states:
        if s["mode"] == "fn" or (s["mode"] == "stamped" and s["which"] == "fn_body"):
            continue
        recs = [r for r in results[s["key"]].records if "output_tt" in r and r["attr"].strip() in ("pub Tr", "", "ref")]
        if len(recs) != 1:
            continue
        it, ot = recs[0]["input_tt"], recs[0]["output_tt"]
        gi = next((i for i, t in enumerate(it) if t[0] == "g" and t[1] == "{"), None)
        go = next((i for i, t in enumerate(ot) if t[0] == "g" and t[1] == "{"), None)
        if gi is None or go is None:
            continue
        if s["mode"] == "mod" or (s["mode"] == "stamped" and s["which"] == "mod_const"):
            reqs.append(dict(op="file", tt=ot[go][2][len(it[gi][2]):]))
            where.append((s["key"], "inner"))
        reqs.append(dict(op="file", tt=ot[go + 1:]))
        where.append((s["key"], "after"))
    parsed = {}
    for (key, slot), resp in zip(where, engine.tokview(reqs)):
        parsed.setdefault(key, {})[slot] = resp
    for s, u in zip(states, units):
        res = results[s["key"]]
        problems = check_state(s, res, parsed.get(s["key"], {}))
        rec = res.records[0] if res.records else {}
        observed = dict(ok=not problems, problems=[p[0] for p in problems],
                        generated_tokens=len(rec.get("output_tt", [])) - len(rec.get("input_tt", [])) if s["mode"] == "fn" else None)
        report.observe(s["key"], "identity", observed, nontrivial=bool(s.get("dev") or s.get("items")),
                       sample=dict(source=u.src, input=rec.get("input", ""), output=rec.get("output", rec.get("panic", ""))))
        for sig, detail in problems:
            report.violation(s["key"], tags_of(s), sig, detail, state=s, source=engine.standalone_source(u),
                             meta=dict(mode="expand", input=rec.get("input"), output=rec.get("output")))


def run(report, tier):
    states, transitions, bound = enumerate_states(tier)
    report.space(len(states), transitions, bound,
                 "fn: default fn + bounded deviations over dims %s; mod: item words over %d symbols; impl: item words over %d "
                 "symbols x {static, ref} (+ attribute sets below entrait); non-trivial = differs from the default / has items" % (DIM_ORDER, len(gen.MOD_ITEM_ORDER), len(IMPL_ITEMS)))
    report.assumptions += ["token trees as presented by the proc_macro API (recorder hook)",
                           "punctuation spacing outside brace groups is not compared (syn reprints signatures)"]
    common.evaluate_chunked(evaluate, states, report, tier)
