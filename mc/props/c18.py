"""C18 - foreign attributes stay where the user put them.

State  = (input mode, <= k placements (site, attribute)).
Sites  : fn: above entrait / below entrait / on a parameter;  mod: on the module / on a module fn / parameter;
         trait: on the trait / on a method / parameter;  impl block: on the block / on a fn / parameter.
Attrs  : doc, #[allow], #[inline], #[must_use], #[cfg(all())], #[cfg(any())], #[verif_helper::id], #[verif_helper::count(..)].
Model  : generated traits / impls / methods carry nothing from the user except (a) cfg attributes of module and
         impl-block fns mirrored on their methods, (b) all attributes of an entraited trait's methods mirrored on the
         delegating methods; generated signatures carry no parameter attributes; programs with cfg(any()) members
         compile and the remaining methods work; a counting helper macro sees each function exactly once.
"""
import itertools
import os
import tempfile

from .. import engine, common

ID = "C18"
ANY = "&impl ::core::any::Any"
ATTR = {
    "doc": "/// d", "allow": "#[allow(unused)]", "inline": "#[inline]", "must": "#[must_use]", "cfgon": "#[cfg(all())]",
    "cfgoff": "#[cfg(any())]", "hid": "#[verif_helper::id]", "hcount": "#[verif_helper::count(KEY_SITE)]",
    # a foreign attribute wrapped in an enabled cfg_attr is still a foreign attribute
    "cahcount": "#[cfg_attr(all(), verif_helper::count(KEY_SITE))]",
}
SITES = {
    "fn": {"above": ["doc", "allow", "inline", "must", "cfgon", "hid", "hcount"],
           "below": ["doc", "allow", "inline", "must", "cfgon", "cfgoff", "hid", "hcount", "cahcount"],
           "param": ["allow", "cfgon"], "ptuple": ["allow", "cfgon"], "pwild": ["allow"]},
    # a fn with a concrete dependency: its generated trait goes through a nested entrait invocation
    "fnconc": {"above": ["doc", "allow", "inline", "must", "hid"],
               "below": ["doc", "allow", "inline", "must", "cfgon", "hid", "hcount", "cahcount"],
               "param": ["allow"]},
    "mod": {"modbelow": ["doc", "allow", "cfgon", "hid"],
            "modfn": ["doc", "allow", "inline", "must", "cfgon", "cfgoff", "hid", "hcount", "cahcount"],
            "param": ["allow", "cfgon"], "ptuple": ["allow"], "pwild": ["allow"]},
    "trait": {"traitbelow": ["doc", "allow", "must", "cfgon", "hid"],
              "method": ["doc", "allow", "must", "cfgon", "cfgoff", "hid", "hcount"],
              "param": ["allow", "cfgon"]},
    # the attributed module fn is `unsafe` (the delegating method is built on another path)
    "mod_unsafe": {"modfn": ["doc", "allow", "cfgon", "cfgoff", "hid"], "param": ["allow"]},
    # an entraited trait whose attributed method is async and PROVIDED (rewritten to `fn -> impl Future { async move {..} }`)
    "trait_ad": {"traitbelow": ["doc", "allow"], "method": ["doc", "allow", "must", "cfgon", "cfgoff"], "param": ["allow"]},
    # an entraited trait with a delegation-target trait; the attributed method is PROVIDED (its body is dropped from the target trait)
    "target_d": {"traitbelow": ["doc", "allow"], "method": ["doc", "allow", "cfgon", "cfgoff"], "param": ["allow"]},
    "impl": {"implbelow": ["doc", "allow", "cfgon", "hid"],
             "implfn": ["doc", "allow", "inline", "must", "cfgon", "cfgoff", "hid", "hcount", "cahcount"],
             "param": ["allow", "cfgon"], "ptuple": ["allow"], "pwild": ["allow"]},
}


TRAITLIKE = ("trait", "trait_ad", "target_d")


def enumerate_states(tier):
    k = 3 if tier == "thorough" else 2
    states = []
    transitions = 0
    for mode, sites in SITES.items():
        alpha = [(site, a) for site, attrs in sites.items() for a in attrs]
        words, t = common.words(alpha, k)
        transitions += t
        for w in words:
            if tier == "thorough" and len(w) == 3 and len({x[0] for x in w}) < 2:
                continue
            key = "a_%s_%s" % (mode, "_".join("%s%s" % (s[:2] if s != "modfn" and s != "modbelow" else s[3:5], a) for s, a in w) or "none")
            states.append(dict(key=key, mode=mode, word=[list(x) for x in w]))
    # de-duplicate keys (site abbreviations can collide)
    seen = {}
    for s in states:
        n = seen.get(s["key"], 0)
        seen[s["key"]] = n + 1
        if n:
            s["key"] += "_%d" % n
    return states, transitions, dict(placements=k, sites={m: list(v) for m, v in SITES.items()}, attributes=list(ATTR))


def attrs_at(s, site):
    out = []
    for i, (st, a) in enumerate(s["word"]):
        if st == site:
            out.append(ATTR[a].replace("KEY_SITE", "%s_%s_%d" % (s["key"], site, i)))
    return out


def has(s, site, a):
    return any(st == site and x == a for st, x in s["word"])


def fn_disabled(s):
    site = {"fn": "below", "fnconc": "below", "mod": "modfn", "mod_unsafe": "modfn", "trait": "method", "trait_ad": "method", "target_d": "method", "impl": "implfn"}[s["mode"]]
    return has(s, site, "cfgoff")


def render(s):
    key, mode = s["key"], s["mode"]
    L = ["mod %s {" % key, "    use super::rt;"]
    # the attributed parameter: plain `a`, destructured `(a, _b)` or a wildcard (then a second, plain `a` follows)
    psite = next((st for st, _ in s["word"] if st in ("param", "ptuple", "pwild")), "param")
    pa = " ".join(attrs_at(s, "param") + attrs_at(s, "ptuple") + attrs_at(s, "pwild"))
    PAT = {"param": ("a: i64", "5"), "ptuple": ("(a, _b): (i64, i64)", "(5, 0)"), "pwild": ("_: u8, a: i64", "0, 5")}[psite]
    off = fn_disabled(s)
    ret = "Nonexistent" if off else "i64"
    body = "{ loop {} }" if off else "{ a }"
    if mode == "fnconc":
        L.append("    pub struct Cfg;")
        L += ["    " + a for a in attrs_at(s, "above")]
        L.append("    #[::entrait::entrait(pub Tr)]")
        L += ["    " + a for a in attrs_at(s, "below")]
        L.append("    pub fn f(deps: &Cfg, %s %s) -> %s %s" % (pa, PAT[0], ret, body))
        L.append("    #[::entrait::entrait(pub Tr2)]")
        L.append("    pub fn other(deps: %s) -> i64 { 1 }" % ANY)
        app = "::entrait::Impl::new(Cfg)"
    elif mode == "fn":
        L += ["    " + a for a in attrs_at(s, "above")]
        L.append("    #[::entrait::entrait(pub Tr)]")
        L += ["    " + a for a in attrs_at(s, "below")]
        L.append("    pub fn f(deps: %s, %s %s) -> %s %s" % (ANY, pa, PAT[0], ret, body))
        L.append("    #[::entrait::entrait(pub Tr2)]")
        L.append("    pub fn other(deps: %s) -> i64 { 1 }" % ANY)
        app = "::entrait::Impl::new(())"
    elif mode == "mod_unsafe":
        L.append("    #[::entrait::entrait(pub Tr)]")
        L.append("    pub mod m {")
        L += ["        " + a for a in attrs_at(s, "modfn")]
        L.append("        pub unsafe fn f(deps: %s, %s %s) -> %s %s" % (ANY, pa, PAT[0], ret, body))
        L.append("        pub fn other(deps: %s) -> i64 { 1 }" % ANY)
        L.append("    }")
        app = "::entrait::Impl::new(())"
    elif mode == "mod":
        L.append("    #[::entrait::entrait(pub Tr)]")
        L += ["    " + a for a in attrs_at(s, "modbelow")]
        L.append("    pub mod m {")
        L += ["        " + a for a in attrs_at(s, "modfn")]
        L.append("        pub fn f(deps: %s, %s %s) -> %s %s" % (ANY, pa, PAT[0], ret, body))
        L.append("        pub fn other(deps: %s) -> i64 { 1 }" % ANY)
        L.append("    }")
        app = "::entrait::Impl::new(())"
    elif mode == "trait":
        L.append("    #[::entrait::entrait]")
        L += ["    " + a for a in attrs_at(s, "traitbelow")]
        L.append("    pub trait Tr {")
        L += ["        " + a for a in attrs_at(s, "method")]
        tpat = {"param": "a: i64", "ptuple": "a: (i64, i64)", "pwild": "_: u8, a: i64"}[psite]
        L.append("        fn f(&self, %s %s) -> %s;" % (pa, tpat, ret))
        L.append("        fn other(&self) -> i64;")
        L.append("    }")
        L.append("    pub struct App;")
        L.append("    impl Tr for App { %s fn other(&self) -> i64 { 1 } }" % ("" if off else "fn f(&self, %s) -> i64 { a }" % PAT[0].replace("_: u8", "_x: u8")))
        app = "::entrait::Impl::new(App)"
    elif mode == "trait_ad":
        L.append("    #[::entrait::entrait]")
        L += ["    " + a for a in attrs_at(s, "traitbelow")]
        L.append("    pub trait Tr {")
        L += ["        " + a for a in attrs_at(s, "method")]
        L.append("        async fn f(&self, %s a: i64) -> %s %s" % (pa, ret, body))
        L.append("        fn other(&self) -> i64;")
        L.append("    }")
        L.append("    pub struct App;")
        L.append("    impl Tr for App { fn other(&self) -> i64 { 1 } }")
        app = "::entrait::Impl::new(App)"
    elif mode == "target_d":
        L.append("    #[::entrait::entrait(TrImpl, delegate_by = DelegateTr)]")
        L += ["    " + a for a in attrs_at(s, "traitbelow")]
        L.append("    pub trait Tr {")
        L += ["        " + a for a in attrs_at(s, "method")]
        L.append("        fn f(&self, %s a: i64) -> %s %s" % (pa, ret, "{ loop {} }" if off else "{ a + 100 }"))
        L.append("        fn other(&self) -> i64;")
        L.append("    }")
        L.append("    pub struct X;")
        L.append("    #[::entrait::entrait]")
        L.append("    impl TrImpl for X {")
        if not off:
            L.append("        pub fn f(deps: %s, a: i64) -> i64 { a }" % ANY)
        L.append("        pub fn other(deps: %s) -> i64 { 1 }" % ANY)
        L.append("    }")
        L.append("    pub struct App;")
        L.append("    impl DelegateTr<Self> for App { type Target = X; }")
        app = "::entrait::Impl::new(App)"
    else:
        L.append("    #[::entrait::entrait(TrImpl, delegate_by = DelegateTr)]")
        tpat = {"param": "a: i64", "ptuple": "a: (i64, i64)", "pwild": "x: u8, a: i64"}[psite]
        L.append("    pub trait Tr { %s fn f(&self, %s) -> %s; fn other(&self) -> i64; }" % ("#[cfg(any())]" if off else "", tpat, ret))
        L.append("    pub struct X;")
        L.append("    #[::entrait::entrait]")
        L += ["    " + a for a in attrs_at(s, "implbelow")]
        L.append("    impl TrImpl for X {")
        L += ["        " + a for a in attrs_at(s, "implfn")]
        L.append("        pub fn f(deps: %s, %s %s) -> %s %s" % (ANY, pa, PAT[0], ret, body))
        L.append("        pub fn other(deps: %s) -> i64 { 1 }" % ANY)
        L.append("    }")
        L.append("    pub struct App;")
        L.append("    impl DelegateTr<Self> for App { type Target = X; }")
        app = "::entrait::Impl::new(App)"
    L.append("    pub fn client() {")
    L.append("        let app = %s;" % app)
    fcall = '"-".to_string()' if off else ("rt::block_on(app.f(%s)).to_string()" if mode == "trait_ad" else "unsafe { app.f(%s) }.to_string()" if mode == "mod_unsafe" else "app.f(%s).to_string()") % PAT[1]
    L.append('        rt::out("r", format!("{}|{}", %s, app.other()));' % fcall)
    L += ["    }", "}"]
    return engine.Unit(key, "\n".join(L), 'rt::run("%s", %s::client);' % (key, key), s)


def norm_attr(a):
    return a["tokens"].replace(" ", "")


def src_attr_norm(text):
    if text.startswith("///"):
        return ('#[doc="%s"]' % text[3:]).replace(" ", "")
    return text.replace(" ", "")


def model(s):
    mode = s["mode"]
    site = {"fn": "below", "fnconc": "below", "mod": "modfn", "mod_unsafe": "modfn", "trait": "method", "trait_ad": "method", "target_d": "method", "impl": "implfn"}[mode]
    fn_attrs = [src_attr_norm(a) for a in attrs_at(s, site)]
    if mode in TRAITLIKE:
        method_attrs = sorted(fn_attrs)                      # everything mirrored
    elif mode in ("mod", "mod_unsafe", "impl"):
        method_attrs = sorted(a for a in fn_attrs if a.startswith("#[cfg("))   # cfg mirrored, nothing else
    else:
        method_attrs = []
    compiles = True
    counts = {}
    for i, (st, a) in enumerate(s["word"]):
        if a in ("hcount", "cahcount"):
            tag = "%s_%s_%d" % (s["key"], st, i)
            disabled = fn_disabled(s) and (st == site or mode in ("fn", "fnconc"))
            # a cfg'd-off item is removed before (cfg above) or after (cfg below) the helper runs; only count enabled fns
            if disabled:
                counts[tag] = None
            else:
                counts[tag] = 2 if (mode in TRAITLIKE and st == "method") else 1
    return dict(method_attrs=method_attrs, result=("-|1" if fn_disabled(s) else "5|1"), compiles=compiles, helper_counts=counts)


def generated_items(view, s):
    """-> (generated trait or None, list of generated impls) for the invocation on `f`'s container."""
    items = view.get("items", [])
    if s["mode"] in ("mod", "mod_unsafe"):
        items = [x for it in items if it["k"] == "mod" and it.get("items") for x in it["items"]]
    tname = "TrImpl" if s["mode"] == "impl" else "Tr"
    if s["mode"] == "fnconc":
        # the nested `#[::entrait::entrait(..)]` on the generated trait is macro-owned
        for it in items:
            if it["k"] == "trait" and it["ident"] == "Tr":
                it["attrs"] = [a for a in it["attrs"] if a["path"].replace(" ", "") != "::entrait::entrait"]
    trait = next((it for it in items if it["k"] == "trait" and it["ident"] == "Tr"), None) if s["mode"] != "impl" else None
    impls = [it for it in items if it["k"] == "impl" and it.get("trait") and it["trait"].replace(" ", "").split("<")[0] == tname]
    return trait, impls


def evaluate(states, report, tier):
    helper = engine.build_helper_macros()
    fd, log = tempfile.mkstemp(prefix="entrait-verif-helperlog-")
    os.close(fd)
    try:
        units = [render(s) for s in states]
        results, stats = engine.execute(units, feature=False, mode="run", extra_externs=[("verif_helper", helper)],
                                        env_extra={"VERIF_HELPER_LOG": log})
        report.phases.append(dict(stats))
        # helper log of the FIRST compilation of every shard only would be ideal; the fixpoint recompiles shards, so
        # count per tag the maximum over identical (tag, line) groups: normalise by counting distinct target names per compile
        seen = {}
        with open(log) as f:
            for line in f:
                parts = line.rstrip("\n").split("\t")
                if len(parts) == 3:
                    seen.setdefault(parts[0].strip(), []).append((parts[1], parts[2]))
    finally:
        os.remove(log)
    reqs, keys = [], []
    for s in states:
        for r in results[s["key"]].records:
            if "output_tt" in r and (r["attr"].strip() in ("pub Tr", "", "TrImpl, delegate_by = DelegateTr")) and not ("TrImpl" in r["attr"] and s["mode"] == "impl") \
                    and not (s["mode"] == "fnconc" and r["attr"].strip() != "pub Tr"):
                reqs.append(dict(op="file", tt=r["output_tt"]))
                keys.append(s["key"])
                break
    views = dict(zip(keys, engine.tokview(reqs)))
    for s, u in zip(states, units):
        res = results[s["key"]]
        m = model(s)
        problems = []
        obs = {}
        if any("panic" in r for r in res.records):
            problems.append(("macro-panic", str([r.get("panic") for r in res.records])))
        v = views.get(s["key"])
        if s["mode"] in ("fn", "fnconc") and fn_disabled(s):
            # rustc strips a cfg'd-off item before the attribute macro ever runs: nothing is generated, nothing may dangle
            if v is not None:
                problems.append(("expansion-of-disabled-item", ""))
        elif v is None or "error" in (v or {}):
            problems.append(("no-expansion-view", str(v)[:200]))
        else:
            trait, impls = generated_items(v, s)
            if s["mode"] != "impl" and trait is None:
                problems.append(("no-generated-trait", ""))
            if not impls:
                problems.append(("no-generated-impl", ""))
            if trait is not None and s["mode"] not in TRAITLIKE:
                extra = [norm_attr(a) for a in trait["attrs"]]
                if extra:
                    problems.append(("attribute-copied-to-trait", str(extra)))
            for imp in impls:
                extra = [norm_attr(a) for a in imp["attrs"]]
                if extra:
                    problems.append(("attribute-copied-to-impl", str(extra)))
            holders = ([("trait", trait)] if (trait is not None and s["mode"] not in TRAITLIKE) else []) + [("impl", i) for i in impls]
            for where, h in holders:
                for f in h["items"]:
                    if f["k"] != "fn":
                        continue
                    for a in f["sig"]["inputs"]:
                        # (an entraited trait's own signatures are mirrored as written, parameter attributes included)
                        if a["attrs"] and s["mode"] not in TRAITLIKE:
                            problems.append(("parameter-attribute-in-generated-signature:" + where, a["tokens"]))
                    got = sorted(norm_attr(a) for a in f["attrs"])
                    want = m["method_attrs"] if f["sig"]["ident"] == "f" else []
                    if f["sig"]["ident"] == "f":
                        obs.setdefault("method_attrs", {})[where] = got
                    if s["mode"] in ("mod", "mod_unsafe", "impl"):
                        # cfg attributes of the fn may (need not) be mirrored; anything else must not be copied
                        ok = all(x in want for x in got)
                    else:
                        ok = got == want
                    if not ok:
                        missing = [x for x in want if x not in got]
                        sig = ("method-attribute-not-mirrored:" if missing else "attribute-copied-to-method:") + where
                        problems.append((sig, "generated %s method `%s` carries %s, model says %s" % (where, f["sig"]["ident"], got, want)))
        if m["compiles"]:
            if res.errors:
                problems.append((res.compile_sig(s["key"]), "\n".join(res.brief_errors()[:5])))
            elif res.crashed or "__panic" in res.out:
                problems.append(("client-crash", str(res.crashed or res.out.get("__panic"))))
            else:
                obs["r"] = res.first("r")
                if obs["r"] != m["result"]:
                    problems.append(("result", "%r, model says %r" % (obs["r"], m["result"])))
        for tag, want in m["helper_counts"].items():
            if want is None:
                continue
            calls = seen.get(tag, [])
            # the fixpoint may compile a shard several times: count per compiler process (pid), all must agree
            per_pid = {}
            for name, pid in calls:
                per_pid[pid] = per_pid.get(pid, 0) + 1
            counts = set(per_pid.values()) or {0}
            distinct = want if counts == {want} else max(counts, key=lambda c: abs(c - want))
            obs.setdefault("helper", {})[tag.split("_")[-2]] = distinct
            if distinct != want:
                problems.append(("helper-macro-saw-%d-items-not-%d" % (distinct, want), "`%s` was expanded on %s" % (tag, sorted(set(calls)))))
        report.observe(s["key"], m, obs if not problems else dict(obs, problems=sorted(set(p[0] for p in problems))),
                       nontrivial=bool(s["word"]), sample=dict(source=u.src), evals=4)
        done = set()
        for sig, detail in problems:
            if sig in done:
                continue
            done.add(sig)
            tags = {"mode:" + s["mode"]} | {"%s:%s" % (st, a) for st, a in s["word"]}
            report.violation(s["key"], tags, sig, detail, state=s, source=engine.standalone_source(u), meta=dict(mode="run"))


def run(report, tier):
    states, transitions, bound = enumerate_states(tier)
    report.space(len(states), transitions, bound,
                 "BFS over placement words (site, attribute) per input mode; cfg(any()) on a parameter and above entrait are pruned "
                 "(the former changes the arity of the user's own fn, the latter removes the invocation); non-trivial = at least one placement")
    common.evaluate_chunked(evaluate, states, report, tier)
