"""C03 - every supported signature expands to compiling code with the same call type.

State  = (deps form, extra-parameter word, qualifier, return kind, option set, crate feature).
Model  = the expansion compiles (including borrow checking), and - seen as a function of (receiver, arguments..) - the
         generated method has exactly the function's parameter types, lifetime relations and return type:
           * sync: the function and the trait method both coerce to ONE fn-pointer type written by the generator
             (the most general one: higher-ranked lifetimes, qualifiers `unsafe` / `extern "C"` included);
           * async: argument types by construction + `output_is::<R, _>` ascription;
           * lifetime relations additionally by scope witnesses (a return borrowed from deps outlives the arguments' scope
             and vice versa).
Impl   = rustc (fixpoint compilation, every error attributed to its state) + the executed client (direct == trait result).
"""
import itertools

from .. import engine, common

ID = "C03"

DEPS = ["impl", "pimpl", "wimpl", "gi", "gil", "gw", "gh", "vg", "vi", "conc", "vconc", "nodeps"]   # pimpl: `(&impl Dep)` in parentheses; gh: where-predicate with a `for<>` binder on the dependency parameter; gil: like gi, but `D` is declared LAST (after const parameters)
QUALS = ["", "async", "unsafe", 'extern "C"', 'unsafe extern "C"', "async unsafe"]
OPTS = ["", "mock", "mockall", "?Send"]
# extra parameter symbols: (declaration, generic params, where predicates, argument expr, pointer type, needs)
EXTRA = {
    "i": dict(decl="a: i64", arg="1", ptr="i64"),
    "re": dict(decl="r: &X", arg="&x", ptr="&'b X", ref=True),
    "rn": dict(decl="r: &'b X", lts=["'b"], arg="&x", ptr="&'b X", ref=True, named_b=True),
    "ti": dict(decl="t: T", gen=["T: Bound + ::core::marker::Send"], arg="3i64", ptr="i64", has_t=True),
    "tw": dict(decl="u: U", gen=["U"], where=["U: Bound + ::core::marker::Send"], arg="4i64", ptr="i64"),
    "cn": dict(decl="c: [u8; N]", gen=["const N: usize"], arg="[0u8; 2]", ptr="[u8; 2]"),
    "it": dict(decl="it: impl Bound + ::core::marker::Send", arg="5i64", ptr="i64"),
    # other parameter types a signature can carry through unchanged
    "dy": dict(decl="d: &(dyn Bound + ::core::marker::Sync)", arg="&3i64", ptr="&'b (dyn Bound + ::core::marker::Sync)", ref=True),
    "fp": dict(decl="fp: fn(i64) -> i64", arg="fpid", ptr="fn(i64) -> i64"),
    "cl": dict(decl="cl: impl Fn(i64) -> i64 + ::core::marker::Send", arg="fpid", ptr="fn(i64) -> i64"),
    "bx": dict(decl="bx: ::std::boxed::Box<dyn Bound + ::core::marker::Send>", arg="::std::boxed::Box::new(3i64)", ptr="::std::boxed::Box<dyn Bound + ::core::marker::Send>"),
    "mu": dict(decl="mr: &mut i64", arg="&mut mm", ptr="&'b mut i64", ref=True),
    "sl": dict(decl="sl: &[u8]", arg="&[1u8, 2]", ptr="&'b [u8]", ref=True),
    "tu": dict(decl="tu: (i64, &str)", arg="(1, \"s\")", ptr="(i64, &'b str)", ref=True),
    # a where-predicate that names 'static / a for<>-bound lifetime BEFORE a lifetime of the fn
    "ws": dict(decl="r: &'b X, v: V", lts=["'b"], gen=["V"], where=["V: 'static + Lab<'b> + ::core::marker::Send"], arg="&x, 6i64", ptr="&'b X, i64", ref=True, no_ptr=True),
    "wh": dict(decl="r: &'b X, v: V", lts=["'b"], gen=["V: ::core::marker::Send"], where=["for<'z> &'z V: Lab<'b>"], arg="&x, 6i64", ptr="&'b X, i64", ref=True, no_ptr=True),
    # a where-predicate that names a fn lifetime inside the ARGUMENTS of a trait bound
    "wf": dict(decl="r: &'b X, pf: P", lts=["'b"], gen=["P"], where=["P: Fn(&'b X) -> i64 + ::core::marker::Send"], arg="&x, xnum", ptr="&'b X, fn(&'b X) -> i64", ref=True, no_ptr=True),
    # two named lifetimes related by an outlives predicate: in the where clause / inline
    "lw": dict(decl="r: &'b X, r2: &'c X", lts=["'b", "'c"], where=["'c: 'b"], arg="&x, &x", ptr="&'b X, &'c X", ref=True, no_ptr=True),
    "li": dict(decl="r: &'b X, r2: &'c X", lts=["'b", "'c: 'b"], arg="&x, &x", ptr="&'b X, &'c X", ref=True, no_ptr=True),
    # parameter patterns (C16 owns these; here they ride along with the other signature features)
    "dp": dict(decl="(p, q): (i64, i64)", arg="(6, 7)", ptr="(i64, i64)"),
    "mb": dict(decl="mut m: i64", arg="8", ptr="i64"),
    "wl": dict(decl="_: u8", arg="9u8", ptr="u8"),
}
RETS = {
    "unit": dict(ty="", body="", out="()", ptr="()"),
    "i64": dict(ty="-> i64", body="1", out="i64", ptr="i64"),
    "rde": dict(ty="-> &i64", body="deps.num()", out="&i64", ptr="&'a i64", from_deps=True, elided=True),
    "rdn": dict(ty="-> &'a i64", body="deps.num()", out="&i64", ptr="&'a i64", from_deps=True, named_a=True),
    "rb": dict(ty="-> &'b X", body="r", out="&X", ptr="&'b X", needs="rn"),
    # borrowed from the (only) reference argument, lifetime elided: possible without a borrowed dependency (no_deps, by-value deps)
    "rae": dict(ty="-> &X", body="r", out="&X", ptr="&'b X", needs="re", arg_elided=True),
    # .. the same with the argument's lifetime NAMED and only the return type's elided
    "raen": dict(ty="-> &X", body="r", out="&X", ptr="&'b X", needs="rn", arg_elided=True),
    "t": dict(ty="-> T", body="t", out="i64", ptr="i64", needs="ti"),
    "res": dict(ty="-> Result<i64, String>", body="Ok(1)", out="Result<i64, String>", ptr="Result<i64, String>"),
    "opt": dict(ty="-> Option<&'a i64>", body="Some(deps.num())", out="Option<&i64>", ptr="Option<&'a i64>", from_deps=True, named_a=True),
    "imp": dict(ty="-> impl ::core::fmt::Debug", body="1i64", out=None, ptr=None),
}


ANYD = "&impl ::core::any::Any"
# type / const parameters that only the BODY mentions: the caller names them on the trait, the delegating call has to pass them on
SPECIAL = {
    "body_const_gen": ("#[::entrait::entrait(pub Tr)] pub fn f<D: ::core::any::Any, const N: usize>(deps: &D) -> usize { N }",
                       ['let app = ::entrait::Impl::new(());', 'rt::out("d", f::<_, 3>(&app)); rt::out("t", Tr::<3>::f(&app));'], "3"),
    "body_type_impl": ("#[::entrait::entrait(pub Tr)] pub fn f<U: Default + ::core::fmt::Display>(deps: %s, a: i64) -> String { format!(\"{}{}\", U::default(), a) }" % ANYD,
                       ['let app = ::entrait::Impl::new(());', 'rt::out("d", f::<u8>(&app, 1)); rt::out("t", Tr::<u8>::f(&app, 1));'], "01"),
    "body_const_conc_async": ("pub struct Cfg; #[::entrait::entrait(pub Tr)] pub async fn f<const N: usize>(deps: &Cfg, a: impl Into<i64> + Send) -> i64 { a.into() + N as i64 }",
                              ['let app = ::entrait::Impl::new(Cfg);', 'rt::out("d", rt::block_on(f::<3>(&Cfg, 1i32))); rt::out("t", rt::block_on(Tr::<3>::f(&app, 1i32)));'], "4"),
    "body_type_mod": ("#[::entrait::entrait(pub Tr)] pub mod m { pub fn f<U: Default + ::core::fmt::Display>(deps: %s, a: i64) -> String { format!(\"{}{}\", U::default(), a) } "
                      "pub fn g<U: Default + ::core::fmt::Display>(deps: %s) -> i64 { 2 } }" % (ANYD, ANYD),
                      ['let app = ::entrait::Impl::new(());', 'rt::out("d", m::f::<u8>(&app, 1)); rt::out("t", Tr::<u8>::f(&app, 1));'], "01"),
    # the reference to a concrete dependency written `&'static`: still the receiver borrow, the trait is implemented for `Cfg`
    "static_ref_concrete": ("pub struct Cfg(pub i64); pub static CFG: Cfg = Cfg(5);\n    #[::entrait::entrait(pub Tr)] pub fn f(deps: &'static Cfg, a: i64) -> i64 { deps.0 + a }",
                            ['let app: &\'static ::entrait::Impl<Cfg> = ::std::boxed::Box::leak(::std::boxed::Box::new(::entrait::Impl::new(Cfg(5))));',
                             'rt::out("d", f(&CFG, 1)); rt::out("t", format!("{}", <Cfg as Tr>::f(&CFG, 1) + <::entrait::Impl<Cfg> as Tr>::f(app, 1) - 6));'], "6"),
    "nodeps_nested_elided": ("pub struct H(pub &'static str);\n    #[::entrait::entrait(pub Tr, no_deps)] pub fn f(h: &H, n: usize) -> Option<&&str> { if n > 0 { Some(&h.0) } else { None } }",
                             ['let app = ::entrait::Impl::new(());', 'let h = H("ab"); rt::out("d", f(&h, 1).unwrap().len()); rt::out("t", app.f(&h, 1).unwrap().len());'], "2"),
    "const_before_type": ("#[::entrait::entrait(pub Tr)] pub fn f<const N: usize, T: Copy + Send + Sync + 'static>(deps: %s, a: [T; N]) -> usize { N }" % ANYD,
                          ['let app = ::entrait::Impl::new(());', 'rt::out("d", f(&app, [1u8, 2])); rt::out("t", app.f([1u8, 2]));'], "2"),
    "module_generics_in_different_orders": ("#[::entrait::entrait(pub Tr)] pub mod m { pub fn g<B: Default + ::core::fmt::Display, A: Default + ::core::fmt::Display>(deps: %s) -> String { format!(\"{}{}\", A::default(), B::default()) } "
                                            "pub fn f<A: Default + ::core::fmt::Display, B: Default + ::core::fmt::Display>(deps: %s) -> String { format!(\"{}{}\", A::default(), B::default()) } }" % (ANYD, ANYD),
                                            ['let app = ::entrait::Impl::new(());', 'rt::out("d", m::f::<u8, bool>(&app)); rt::out("t", Tr::<bool, u8>::f(&app));'], "0false"),
    # mockable trait (implemented for Impl<T> only) + named dependency parameter + an own type parameter: the function must receive the
    # very `&Impl<..>` the method was called on (not the application inside it, which deref coercion would also accept)
    "named_deps_own_generic_mockable": ("#[::entrait::entrait(pub Tr, mockall)] pub fn f<D: ::core::any::Any + Sync, U: Default + ::core::fmt::Display>(deps: &D, a: i64) -> String "
                                        "{ format!(\"{}{}{}\", ::core::any::type_name::<D>().contains(\"Impl<\"), U::default(), a) }",
                                        ['let app = ::entrait::Impl::new(());', 'rt::out("d", f::<_, u8>(&app, 1)); rt::out("t", Tr::<u8>::f(&app, 1));'], "true01"),
    "body_type_nodeps": ("#[::entrait::entrait(pub Tr, no_deps)] pub fn f<U: Default + ::core::fmt::Display, const N: usize>(a: i64) -> String { format!(\"{}{}{}\", U::default(), N, a) }",
                         ['let app = ::entrait::Impl::new(());', 'rt::out("d", f::<u8, 7>(1)); rt::out("t", Tr::<u8, 7>::f(&app, 1));'], "071"),
}


def enumerate_states(tier):
    maxlen = 2 if tier == "thorough" else 1
    words, transitions = common.words(list(EXTRA), maxlen)
    if maxlen < 2:
        # a few two-parameter words in the quick tier too: position effects between patterns and plain parameters
        words += [("dp", "mb"), ("wl", "mb"), ("mb", "dp"), ("i", "wl"), ("re", "mb")]
        transitions += 5
    states = []
    for deps, w, q, r, o, feature in itertools.product(DEPS, words, QUALS, RETS, OPTS, (False, True)):
        R = RETS[r]
        byval = deps in ("vg", "vi", "vconc")
        if R.get("from_deps") and (byval or deps in ("nodeps", "wimpl")):
            continue
        if R.get("needs") and R["needs"] not in w:
            continue
        if len(set(w)) != len(w) or len([x for x in w if x in ("re", "rn", "lw", "li", "ws", "wh", "wf")]) > 1:
            continue            # the same symbol twice (or two symbols sharing `r` / `'b`) would declare a name twice
        if R.get("elided") and any(EXTRA[x].get("ref") for x in w):
            continue            # elided output with two reference inputs is not Rust
        if R.get("arg_elided") and (deps not in ("nodeps", "vg", "vi", "vconc") or len([x for x in w if EXTRA[x].get("ref")]) != 1):
            continue
        if o == "?Send" and "async" not in q:
            continue
        if tier != "thorough" and deps in ("pimpl", "gh") and (w or o != ""):
            continue            # parentheses around the dependency type: with every qualifier and return kind
        if tier != "thorough" and deps == "gil" and not set(w) <= {"cn", "ti", "i"}:
            continue            # the declaration position of D only interacts with the other generic parameters
        if o == "mock" and not feature:
            continue            # mock_api only switches unimock on with the crate feature; off it is covered by C04/C10
        if tier != "thorough" and feature and o in ("", "?Send") and q not in ("", "async"):
            continue
        if tier != "thorough" and any(x in ("dp", "mb", "wl", "lw", "li", "ws", "wh", "wf", "dy", "fp", "cl", "bx", "sl", "tu", "mu") for x in w) and (o != "" or deps not in ("impl", "nodeps", "conc", "gi", "gil")):
            continue            # the feature only matters through the mock options
        key = "g_%s_%s_%s_%s_%s_%s" % (deps, "_".join(w) or "0", {"": "s", "async": "a", "unsafe": "u", 'extern "C"': "e", 'unsafe extern "C"': "ue", "async unsafe": "au"}[q],
                                       r, {"": "p", "mock": "m", "mockall": "ma", "?Send": "ms"}[o], "fon" if feature else "foff")
        states.append(dict(key=key, deps=deps, word=list(w), qual=q, ret=r, opt=o, feature=feature))
        # the same function as one of two functions of an entraited module (generic analysis is shared between the functions there)
        if deps not in ("conc", "vconc") and not feature and (o in ("", "?Send") or (tier == "thorough" and len(w) <= 1)):
            states.append(dict(key=key.replace("g_", "gm_", 1), deps=deps, word=list(w), qual=q, ret=r, opt=o, feature=feature, cont="mod"))
            # .. and stamped out by macro_rules with the dependency TYPE passed as a `$d:ty` fragment (it arrives in an invisible group)
            if deps in ("impl", "vi", "gi", "vg") and not R.get("named_a") and not feature and ((tier == "thorough" and len(w) <= 1 and o == "") or (not w and o == "")):
                states.append(dict(key=key.replace("g_", "gy_", 1), deps=deps, word=list(w), qual=q, ret=r, opt=o, feature=feature, cont="stampty"))
            # .. and next to a twin with the very same signature, generic parameter names included
            if any(EXTRA[x].get("gen") for x in w) or deps in ("gi", "gil", "gw", "gh", "vg"):
                states.append(dict(key=key.replace("g_", "gt_", 1), deps=deps, word=list(w), qual=q, ret=r, opt=o, feature=feature, cont="twin"))
    for name in SPECIAL:
        states.append(dict(key="gs_" + name, special=name, deps="special", word=[], qual="", ret="special", opt="", feature=False))
    return states, len(states), dict(deps=DEPS, extra_params=list(EXTRA), word_len=maxlen, quals=QUALS, returns=list(RETS), options=OPTS)


def pieces(s):
    """Everything the renderer and the pointer type need."""
    deps, w, R = s["deps"], s["word"], RETS[s["ret"]]
    named_a = R.get("named_a")
    lts = (["'a"] if named_a else []) + [l for x in w for l in EXTRA[x].get("lts", [])]
    gens, where = [], []
    la = "'a " if named_a else ""
    if deps == "impl":
        dparam = "deps: &%simpl Dep" % la
    elif deps == "pimpl":
        dparam = "deps: (&%simpl Dep)" % la
    elif deps == "wimpl":
        dparam = "_: &impl Dep"        # the dependency is not used: wildcard pattern in the deps position
    elif deps == "gi":
        gens.append("D: Dep")
        dparam = "deps: &%sD" % la
    elif deps == "gil":
        dparam = "deps: &%sD" % la
    elif deps == "gw":
        gens.append("D")
        where.append("D: Dep")
        dparam = "deps: &%sD" % la
    elif deps == "gh":
        gens.append("D")
        where.append("for<'h> D: Dep + Lab<'h>")
        dparam = "deps: &%sD" % la
    elif deps == "vg":
        gens.append("D: Dep + ::core::marker::Send")
        dparam = "deps: D"
    elif deps == "vi":
        dparam = "deps: impl Dep + ::core::marker::Send"
    elif deps == "conc":
        dparam = "deps: &%sApp" % la
    elif deps == "vconc":
        dparam = "deps: App"
    else:
        dparam = ""
    for x in w:
        gens += EXTRA[x].get("gen", [])
        where += EXTRA[x].get("where", [])
    # generic parameter order: lifetimes, types, consts
    consts = [g for g in gens if g.startswith("const ")]
    types = [g for g in gens if not g.startswith("const ")]
    generics = lts + types + consts + (["D: Dep"] if deps == "gil" else [])
    params = [p for p in [dparam] + [EXTRA[x]["decl"] for x in w] if p]
    return dict(generics=generics, where=where, params=params)


def render(s):
    if s.get("special"):
        items, client, exp = SPECIAL[s["special"]]
        L = ["mod %s {" % s["key"], "    use super::rt;", "    " + items, "    pub fn client() {"] + ["        " + c for c in client] + ["    }", "}"]
        return engine.Unit(s["key"], "\n".join(L), 'rt::run("%s", %s::client);' % (s["key"], s["key"]), s)
    key, deps, w, q, R = s["key"], s["deps"], s["word"], s["qual"], RETS[s["ret"]]
    P = pieces(s)
    asy = "async" in q
    unsafe = "unsafe" in q
    opts = ["pub Tr"] + (["no_deps"] if deps == "nodeps" else []) + \
        {"": [], "mock": ["mock_api = TrMock"], "mockall": ["mockall"], "?Send": ["?Send"]}[s["opt"]]
    L = ["mod %s {" % key, "    use super::rt;",
         "    #[derive(Debug)] pub struct X(pub i64);", "    pub fn fpid(x: i64) -> i64 { x }", "    pub fn xnum(x: &X) -> i64 { x.0 }",
         "    pub trait Bound { fn b(&self) -> i64; } impl Bound for i64 { fn b(&self) -> i64 { *self } }",
         "    pub trait Lab<'l> {} impl<'l> Lab<'l> for i64 {} impl<'l, 'z> Lab<'l> for &'z i64 {} impl<'l> Lab<'l> for ::entrait::Impl<App> {}",
         "    pub trait Dep { fn num(&self) -> &i64; }",
         "    pub struct App { pub num: i64 }",
         "    impl Dep for App { fn num(&self) -> &i64 { &self.num } }",
         "    impl Dep for ::entrait::Impl<App> { fn num(&self) -> &i64 { &self.num } }"]
    g = "<%s>" % ", ".join(P["generics"]) if P["generics"] else ""
    wh = " where %s" % ", ".join(P["where"]) if P["where"] else ""
    body = ("rt::yield_once().await; " if asy else "") + R["body"]
    L.append("    #[::entrait::entrait(%s)]" % ", ".join(opts))
    inmod = s.get("cont") in ("mod", "twin")
    if inmod:
        L.append("    pub mod m { use super::*;")
        if s["cont"] == "twin":
            L.append("    pub %s fn sibling%s(%s) %s%s { %s }" % (q, g, ", ".join(P["params"]), R["ty"], wh, body))
        else:
            L.append("    pub fn sibling(%s) -> i64 { 0 }" % ("" if deps == "nodeps" else "deps: &impl Dep"))
    if s.get("cont") == "stampty":
        dty = P["params"][0].split(": ", 1)[1]
        L.insert(len(L) - 1, "    macro_rules! mk { ($d:ty) => {")
        L.append("    pub %s fn f%s(%s) %s%s { %s }" % (q, g, ", ".join(["deps: $d"] + P["params"][1:]), R["ty"], wh, body))
        L.append("    } }")
        L.append("    mk!(%s);" % dty)
    else:
        L.append("    pub %s fn f%s(%s) %s%s { %s }" % (q, g, ", ".join(P["params"]), R["ty"], wh, body))
    if inmod:
        L.append("    }")
    fpath = "m::f" if inmod else "f"
    # ---- client
    conc = deps in ("conc", "vconc")
    appty = "App" if conc else "::entrait::Impl<App>"
    mkapp = "App { num: 7 }" if conc else "::entrait::Impl::new(App { num: 7 })"
    byval = deps in ("vg", "vi", "vconc")
    args = [EXTRA[x]["arg"] for x in w]

    def call(fn_path, recv, is_trait):
        a = ([] if (deps == "nodeps" and not is_trait) else [recv]) + args
        e = "%s(%s)" % (fn_path, ", ".join(a))
        if asy:
            e = "rt::block_on(%s)" % e
        if unsafe:
            e = "unsafe { %s }" % e
        return e

    # (deny(unused_unsafe): if the fn or the method silently stopped being `unsafe`, the unsafe blocks below are rejected)
    L.append("    #[deny(unused_unsafe)] pub fn client() {")
    L.append("        let x = X(2); let mut mm = 5i64;")
    for name, path, is_trait in (("d", fpath, False), ("t", "Tr::f", True)):
        recv_ref = mkapp if byval else "&app"
        if RETS[s["ret"]].get("needs") in ("rn", "re") and not RETS[s["ret"]].get("from_deps"):
            # the result borrows from the argument: the dependency may die first
            L.append("        let %s = { let app = %s; format!(\"{:?}\", %s) };" % (name, mkapp, call(path, recv_ref, is_trait)))
            L.append("        let _w_%s: &X = { let app = %s; %s };" % (name, mkapp, call(path, recv_ref, is_trait)))
        elif R.get("from_deps"):
            # the result borrows from the dependency: the arguments may die first
            L.append("        let app = %s;" % mkapp)
            L.append("        let %s = { let x = X(2); format!(\"{:?}\", %s) };" % (name, call(path, "&app", is_trait)))
            L.append("        let _w_%s = { let x = X(2); %s };" % (name, call(path, "&app", is_trait)))
            L.append("        let _ = format!(\"{:?}\", _w_%s);" % name)
        else:
            L.append("        let %s = { let app = %s; format!(\"{:?}\", %s) };" % (name, mkapp, call(path, recv_ref, is_trait)))
    # fn-pointer witnesses (sync) / Output ascription (async)
    if not asy and R["ptr"] is not None and not any(EXTRA[x].get("no_ptr") for x in w):
        lts = (["'a"] if ("'a" in R["ptr"] or R.get("named_a")) else []) + (["'b"] if any(EXTRA[x].get("ref") for x in w) else [])
        recv_ptr = (appty if byval else "&%s%s" % ("'a " if "'a" in lts else "", appty))
        extra_ptr = [EXTRA[x]["ptr"] for x in w]
        hr = "for<%s> " % ", ".join(lts) if lts else ""
        qptr = q + " " if q else ""
        t_ptr = "%s%sfn(%s) -> %s" % (hr, qptr, ", ".join([recv_ptr] + extra_ptr), R["ptr"])
        d_ptr = "%s%sfn(%s) -> %s" % (hr, qptr, ", ".join(([] if deps == "nodeps" else [recv_ptr]) + extra_ptr), R["ptr"])
        if deps == "nodeps":
            d_ptr = d_ptr.replace("for<'a> ", "").replace("for<'a, 'b> ", "for<'b> ")
        L.append("        let _pd: %s = %s;" % (d_ptr, fpath))
        L.append("        let _pt: %s = <%s as Tr%s>::f;" % (t_ptr, appty, "<%s>" % ", ".join("_" for x in w if EXTRA[x].get("gen")) if any(EXTRA[x].get("gen") for x in w) else ""))
    elif asy and R["out"] is not None:
        L.append("        { let app = %s; let fut = %s; super::output_is::<%s, _>(&fut); }"
                 % (mkapp, ("unsafe { %s }" if unsafe else "%s") % ("Tr::f(%s)" % ", ".join(([mkapp] if byval else ["&app"]) + args)), R["out"]))
    L.append('        rt::out("d", d); rt::out("t", t);')
    L += ["    }", "}"]
    return engine.Unit(key, "\n".join(L), 'rt::run("%s", %s::client);' % (key, key), s)


def model(s):
    if s.get("special"):
        return dict(compiles=True, d=SPECIAL[s["special"]][2], t=SPECIAL[s["special"]][2])
    v = {"unit": "()", "i64": "1", "rde": "7", "rdn": "7", "rb": "X(2)", "rae": "X(2)", "raen": "X(2)", "t": "3", "res": "Ok(1)", "opt": "Some(7)", "imp": "1"}[s["ret"]]
    return dict(compiles=True, d=v, t=v)


def tags_of(s):
    t = {"deps:" + s["deps"], "qual:" + (s["qual"].replace(' "C"', "").replace(" ", "-") or "none"), "ret:" + s["ret"], "opt:" + (s["opt"] or "none"),
         "feature:" + ("on" if s["feature"] else "off"), "cont:" + s.get("cont", "fn")}
    return t | {"param:" + x for x in s["word"]}


def evaluate(states, report, tier):
    for feature in (False, True):
        group = [s for s in states if s["feature"] == feature]
        if not group:
            continue
        units = [render(s) for s in group]
        results, stats = engine.execute(units, feature=feature, mode="run")
        report.phases.append(dict(feature=feature, states=len(group), **stats))
        for s, u in zip(group, units):
            res = results[s["key"]]
            m = model(s)
            problems, obs = [], {}
            if any("panic" in r for r in res.records):
                problems.append(("macro-panic", str([r.get("panic") for r in res.records])))
            elif res.errors:
                sig = res.compile_sig(s["key"])
                problems.append((sig, "\n".join(res.brief_errors()[:6])))
            elif res.crashed or "__panic" in res.out:
                problems.append(("client-crash", str(res.crashed or res.out.get("__panic"))))
            else:
                obs["d"], obs["t"] = res.first("d"), res.first("t")
                if obs["d"] != m["d"] or obs["t"] != m["t"]:
                    problems.append(("result", "direct %r, through the trait %r, model says %r" % (obs["d"], obs["t"], m["d"])))
            report.observe(s["key"], m, obs if not problems else dict(obs, problems=[p[0] for p in problems]), nontrivial=True,
                           sample=dict(source=u.src), evals=4)
            for sig, detail in problems:
                report.violation(s["key"], tags_of(s), sig, detail, state=s, source=engine.standalone_source(u),
                                 meta=dict(mode="run", feature=feature))


def run(report, tier):
    states, transitions, bound = enumerate_states(tier)
    report.space(len(states), transitions, bound,
                 "deps forms %s x extra-parameter words over %s x qualifiers %s x return kinds %s x options %s x feature; incompatible combinations "
                 "(return borrowed from a by-value / absent dependency, elided return with two reference inputs, ..) pruned by construction; "
                 "every state non-trivial" % (DEPS, list(EXTRA), QUALS, list(RETS), OPTS))
    common.evaluate_chunked(evaluate, states, report, tier)
