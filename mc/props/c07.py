"""C07 - dependency inversion: Impl<T> reaches the selected implementation block.

State  = (method word over 9 shapes, static / dynamic selection, further dependency bounds of the block's fns).
Two competing targets X1 / X2 implement the same delegation-target trait with identical method names; AppA selects X1,
AppB selects X2.
Model  = every `Tr` call on Impl<AppK> yields exactly one event, produced by XK's function of that name, whose deps
         argument is that very &Impl<AppK> (address + type name), arguments in order, result unchanged (awaited);
         the block's functions reach further entraited dependencies through `deps`.
"""
from .. import engine, common, gen

ID = "C07"

SHAPES = {
    "z0": dict(ps=[], asy=False), "z1": dict(ps=[("a", "i64", "11")], asy=False), "z2": dict(ps=[("a", "i64", "11"), ("b", "i64", "12")], asy=False),
    # like z2, but trait and impl blocks are stamped out by macro_rules; the parameters are spelled identically (hygiene)
    "zh": dict(ps=[("$p", "i64", "11"), ("a", "i64", "12")], asy=False, stamped=True),
    # a provided method (default body, `where Self: Sized`): Impl<T> must still reach the selected block
    "zp": dict(ps=[("a", "i64", "11")], asy=False, provided=True),
    # the typed spelling of `&self` in the delegated trait
    "zt": dict(ps=[("a", "i64", "11")], asy=False, typed_recv=True),
    "zs": dict(ps=[("s", "&str", '"s11"'), ("n", "i64", "12")], asy=False),
    "zb": dict(ps=[("s", "&'x str", '"s11"')], asy=False, borrowed=True),
    # the same with the named lifetime on the receiver / deps reference as well
    "zc": dict(ps=[("s", "&'x str", '"s11"')], asy=False, borrowed=True, recv_lt=True),
    # return type borrowed from the dependency (elided lifetime)
    "zd": dict(ps=[], asy=False, from_deps=True),
    # .. with a second elided lifetime nested inside the first
    "ze": dict(ps=[], asy=False, from_deps=True, nested=True),
    # .. with the lifetime of the dependency reference NAMED in the impl block's fn and the return type's elided
    "zn": dict(ps=[], asy=False, from_deps=True, named_deps=True),
    # an async method without return value (the delegating call must still be awaited)
    "yu": dict(ps=[("a", "i64", "11")], asy=True, unit=True),
    "y0": dict(ps=[], asy=True), "y1": dict(ps=[("a", "i64", "11")], asy=True), "y2": dict(ps=[("a", "i64", "11"), ("b", "i64", "12")], asy=True),
    "ys": dict(ps=[("s", "&str", '"s11"')], asy=True),
}
ORDER = list(SHAPES)
BOUNDS = {"b0": [[], []], "b1": [["Dep1"], ["Dep1"]], "b2": [["Dep1", "Dep2"], ["Dep1", "Dep2"]],
          "b12": [["Dep1"], ["Dep1", "Dep2"]], "b21": [["Dep2", "Dep1"], ["Dep1"]], "b1x2": [["Dep1"], ["Dep2"]],
          # two instantiations of ONE generic dependency trait (a bound is its whole path, generic arguments included)
          "bg": [["Dep3<u8>"], ["Dep3<u16>"]], "bgg": [["Dep3<u8>", "Dep3<u16>"], ["Dep3<u8>"]],
          # two DIFFERENT dependency traits whose paths end in the same segment
          "bmm": [["ma::Dep", "mb::Dep"], ["ma::Dep"]]}
DEPCALL = {"Dep1": ("deps.dep1()", "5"), "Dep2": ("deps.dep2()", "6"), "Dep3<u8>": ("Dep3::<u8>::dep3(deps)", "8"), "Dep3<u16>": ("Dep3::<u16>::dep3(deps)", "16"),
           "ma::Dep": ("ma::Dep::depm(deps)", "21"), "mb::Dep": ("mb::Dep::depm(deps)", "22")}


def enumerate_states(tier):
    maxlen = 3 if tier == "thorough" else 2
    words, transitions = common.words(ORDER, maxlen, minlen=1)
    states = []
    for w in words:
        for sel in ("static", "dyn"):
            if sel == "dyn" and any(SHAPES[x].get("provided") for x in w):
                continue   # `where Self: Sized` methods cannot be invoked on a trait object: outside dyn delegation
            for b in BOUNDS:
                if len(w) == 1 and b in ("b12", "b21", "b1x2", "bg"):
                    continue
                if tier != "thorough" and len(w) == 2 and b == "b2" and sel == "dyn":
                    continue
                states.append(dict(key="d_%s_%s_%s" % ("_".join(w), sel, b), word=list(w), sel=sel, bounds=b))
                # the other spellings of the dynamic impl block: `#[entrait(dyn)]`, `#[entrait(ref dyn)]`
                if sel == "dyn" and len(w) == 1 and b == "b0":
                    for sp in ("dyn", "ref dyn"):
                        states.append(dict(key="ds_%s_%s" % (w[0], sp.replace(" ", "")), word=list(w), sel=sel, bounds=b, spell=sp))
                # the impl blocks stamped out by macro_rules with the target type as a `$t:ty` fragment, next to free functions
                # named like the methods (the delegating call must stay `Self::m(..)`)
                if set(w) <= {"z0", "z1", "z2", "zs"} and b in ("b0", "b1"):
                    states.append(dict(key="dt_%s_%s_%s" % ("_".join(w), sel, b), word=list(w), sel=sel, bounds=b, tyfrag=True))
    return states, len(states), dict(method_shapes=len(SHAPES), word_len=maxlen, bounds=list(BOUNDS))


def bounds_of(s, i):
    bl = BOUNDS[s["bounds"]]
    return bl[min(i, len(bl) - 1)] if i < 2 else bl[i % 2]


def trait_method(x, i):
    d = SHAPES[x]
    if d.get("borrowed"):
        return "fn m%d<'x>(&%sself, %s) -> &'x str;" % (i, "'x " if d.get("recv_lt") else "", ", ".join("%s: %s" % (p[0], p[1]) for p in d["ps"]))
    if d.get("nested"):
        return "fn m%d(&self) -> &[&str];" % i
    if d.get("from_deps"):
        return "fn m%d(&self) -> &str;" % i
    if d.get("provided"):
        return "fn m%d(&self, a: i64) -> String where Self: Sized { ::std::format!(\"default{}\", a) }" % i
    ps = "".join(", %s: %s" % (p[0], p[1]) for p in d["ps"])
    if d.get("unit"):
        return "async fn m%d(&self%s);" % (i, ps)
    return "%sfn m%d(%s%s) -> String;" % ("async " if d["asy"] else "", i, "self: &Self" if d.get("typed_recv") else "&self", ps)


def impl_fn(s, x, i, target):
    d = SHAPES[x]
    bs = bounds_of(s, i)
    dep_ty = "&(impl %s)" % " + ".join(bs) if bs else "&impl ::core::any::Any"
    shows = [p[0] for p in d["ps"]]
    ev = "rt::ev(%s);" % gen.fmt_call("%s.m%d" % (target, i), ['format!("{:x}", rt::addr(deps))', "rt::tn(deps)"] + shows)
    depvals = [DEPCALL[b][0] for b in bs]
    if d.get("borrowed"):
        ps = ", ".join("%s: %s" % (p[0], p[1]) for p in d["ps"])
        dep_ty_b = dep_ty.replace("&", "&'x ", 1) if d.get("recv_lt") else dep_ty
        return "pub fn m%d<'x>(deps: %s, %s) -> &'x str { %s %s s }" % (i, dep_ty_b, ps, ev, " ".join("let _ = %s;" % v for v in depvals))
    if d.get("nested"):
        return "pub fn m%d(deps: %s) -> &[&str] { %s %s ::std::vec::Vec::leak(::std::vec![rt::tn(deps)]) }" % (i, dep_ty, ev, " ".join("let _ = %s;" % v for v in depvals))
    if d.get("named_deps"):
        return "pub fn m%d<'n>(deps: %s) -> &str { %s %s rt::tn(deps) }" % (i, dep_ty.replace("&", "&'n ", 1), ev, " ".join("let _ = %s;" % v for v in depvals))
    if d.get("from_deps"):
        return "pub fn m%d(deps: %s) -> &str { %s %s rt::tn(deps) }" % (i, dep_ty, ev, " ".join("let _ = %s;" % v for v in depvals))
    ps = "".join(", %s: %s" % (p[0], p[1]) for p in d["ps"])
    res = gen.fmt_call("%s.m%d" % (target, i), shows + depvals)
    pre = "rt::yield_once().await; " if d["asy"] else ""
    if d.get("unit"):
        return "pub async fn m%d(deps: %s%s) { %s%s %s }" % (i, dep_ty, ps, pre, ev, " ".join("let _ = %s;" % v for v in depvals))
    return "pub %sfn m%d(deps: %s%s) -> String { %s%s %s }" % ("async " if d["asy"] else "", i, dep_ty, ps, pre, ev, res)


def render(s):
    key, w = s["key"], s["word"]
    asy = any(SHAPES[x]["asy"] for x in w)
    dyn = s["sel"] == "dyn"
    at = "#[::async_trait::async_trait]" if (dyn and asy) else None
    L = ["mod %s {" % key, "    use super::rt;",
         # further dependencies of Impl<T>: implemented for the two applications only (not blanket), so that a bound
         # missing from the generated where-clause cannot be satisfied by accident
         "    pub trait Dep1 { fn dep1(&self) -> i64; } pub trait Dep2 { fn dep2(&self) -> i64; } pub trait Dep3<T> { fn dep3(&self) -> i64; }",
         "    impl Dep3<u8> for ::entrait::Impl<AppA> { fn dep3(&self) -> i64 { 8 } } impl Dep3<u8> for ::entrait::Impl<AppB> { fn dep3(&self) -> i64 { 8 } }",
         "    impl Dep3<u16> for ::entrait::Impl<AppA> { fn dep3(&self) -> i64 { 16 } } impl Dep3<u16> for ::entrait::Impl<AppB> { fn dep3(&self) -> i64 { 16 } }",
         "    impl Dep1 for ::entrait::Impl<AppA> { fn dep1(&self) -> i64 { 5 } } impl Dep1 for ::entrait::Impl<AppB> { fn dep1(&self) -> i64 { 5 } }",
         "    impl Dep2 for ::entrait::Impl<AppA> { fn dep2(&self) -> i64 { 6 } } impl Dep2 for ::entrait::Impl<AppB> { fn dep2(&self) -> i64 { 6 } }",
         "    pub mod ma { pub trait Dep { fn depm(&self) -> i64; } } pub mod mb { pub trait Dep { fn depm(&self) -> i64; } }",
         "    impl ma::Dep for ::entrait::Impl<AppA> { fn depm(&self) -> i64 { 21 } } impl ma::Dep for ::entrait::Impl<AppB> { fn depm(&self) -> i64 { 21 } }",
         "    impl mb::Dep for ::entrait::Impl<AppA> { fn depm(&self) -> i64 { 22 } } impl mb::Dep for ::entrait::Impl<AppB> { fn depm(&self) -> i64 { 22 } }"]
    stamped = any(SHAPES[x].get("stamped") for x in w)
    if stamped:
        L.append("    macro_rules! stamp { ($p:ident) => {")
    L.append("    #[::entrait::entrait(TrImpl, delegate_by = %s)]" % ("ref" if dyn else "DelegateTr"))
    if at:
        L.append("    " + at)
    L.append("    pub trait Tr {")
    for i, x in enumerate(w):
        L.append("        " + trait_method(x, i))
    L.append("    }")
    if s.get("tyfrag"):
        for i, x in enumerate(w):
            ps = "".join(", _%s: %s" % (p[0], p[1]) for p in SHAPES[x]["ps"])
            L.append("    pub fn m%d<D: ?::core::marker::Sized>(_deps: &D%s) -> String { ::std::string::String::from(\"decoy\") }" % (i, ps))
    for t in ("X1", "X2"):
        L.append("    pub struct %s;" % t)
        if s.get("tyfrag"):
            L.append("    macro_rules! blk_%s { ($t:ty) => {" % t)
        L.append("    #[::entrait::entrait%s]" % ("(%s)" % s.get("spell", "ref") if dyn else ""))
        if at:
            L.append("    " + at)
        L.append("    impl TrImpl for %s {" % ("$t" if s.get("tyfrag") else t))
        for i, x in enumerate(w):
            L.append("        " + impl_fn(s, x, i, t))
        L.append("    }")
        if s.get("tyfrag"):
            L.append("    } }")
            L.append("    blk_%s!(%s);" % (t, t))
    if stamped:
        L.append("    } }")
        L.append("    stamp!(a);")
    for app, t in (("AppA", "X1"), ("AppB", "X2")):
        L.append("    pub struct %s { pub x: %s }" % (app, t))
        if dyn:
            dynty = "dyn TrImpl<Self>" + (" + ::core::marker::Sync" if asy else "")
            L.append("    impl ::core::convert::AsRef<%s> for %s { fn as_ref(&self) -> &(%s + 'static) { &self.x } }" % (dynty, app, dynty))
        else:
            L.append("    impl DelegateTr<Self> for %s { type Target = %s; }" % (app, t))
    L.append("    pub fn client() {")
    for app, t in (("AppA", "X1"), ("AppB", "X2")):
        L.append("        { let app = ::entrait::Impl::new(%s { x: %s });" % (app, t))
        L.append('          rt::out("app_%s", format!("{:x}|{}", rt::addr(&app), rt::tn(&app)));' % app)
        for i, x in enumerate(w):
            d = SHAPES[x]
            call = "Tr::m%d(&app%s)" % (i, "".join(", " + p[2] for p in d["ps"]))
            if d["asy"]:
                call = "rt::block_on(%s)" % call
            L.append('          { let r = %s; rt::out("%s_m%d", format!("{}##{}", rt::take(), %s)); }' % (call, app, i, "r[0]" if d.get("nested") else '{ let _: () = r; "unit" }' if d.get("unit") else "r"))
        L.append("        }")
    L += ["    }", "}"]
    return engine.Unit(key, "\n".join(L), 'rt::run("%s", %s::client);' % (key, key), s)


def model(s):
    exp = {}
    for app, t in (("AppA", "X1"), ("AppB", "X2")):
        for i, x in enumerate(s["word"]):
            d = SHAPES[x]
            shown = [{"11": "11", "12": "12", '"s11"': "s11"}[p[2]] for p in d["ps"]]
            deps = [DEPCALL[b][1] for b in bounds_of(s, i)]
            res = "s11" if d.get("borrowed") else "<typename>" if d.get("from_deps") else "unit" if d.get("unit") else "|".join(["%s.m%d" % (t, i)] + shown + deps)
            exp["%s_m%d" % (app, i)] = dict(target=t, method=i, args=shown, result=res, app=app)
    return exp


def evaluate(states, report, tier):
    units = [render(s) for s in states]
    results, stats = engine.execute(units, feature=False, mode="run")
    report.phases.append(dict(stats))
    for s, u in zip(states, units):
        res = results[s["key"]]
        m = model(s)
        problems, obs = [], {}
        if any("panic" in r for r in res.records):
            problems.append(("macro-panic", str([r.get("panic") for r in res.records])))
        elif res.errors:
            problems.append((res.compile_sig(s["key"]), "\n".join(res.brief_errors()[:5])))
        elif res.crashed or "__panic" in res.out:
            problems.append(("client-crash", str(res.crashed or res.out.get("__panic"))))
        else:
            for name, e in m.items():
                appinfo = res.first("app_" + e["app"], "|")
                got = res.first(name, "")
                trace, _, result = got.partition("##")
                want = "|".join(["%s.m%d" % (e["target"], e["method"]), appinfo] + e["args"])
                obs[name] = [trace.replace(appinfo.split("|")[0], "<app>"), result]
                if trace != want:
                    events = trace.split(";") if trace else []
                    if len(events) != 1:
                        sig = "trace:%d-events" % len(events)
                    elif not trace.startswith(e["target"] + "."):
                        sig = "trace:wrong-target"
                    elif not trace.startswith("%s.m%d|" % (e["target"], e["method"])):
                        sig = "trace:wrong-function"
                    elif "|".join(trace.split("|")[1:3]) != appinfo:
                        sig = "trace:wrong-deps"
                    else:
                        sig = "trace:wrong-arguments"
                    problems.append((sig, "%s: trace %r, model says %r" % (name, trace, want)))
                if e["result"] == "<typename>":
                    e = dict(e, result=appinfo.split("|", 1)[1])
                if result != e["result"]:
                    problems.append(("result", "%s: %r, model says %r" % (name, result, e["result"])))
        report.observe(s["key"], m, obs if not problems else dict(obs, problems=sorted(set(p[0] for p in problems))), nontrivial=True,
                       sample=dict(source=u.src), evals=len(m) * 2)
        done = set()
        for sig, detail in problems:
            if sig in done:
                continue
            done.add(sig)
            tags = {"sel:" + s["sel"], "bounds:" + s["bounds"]} | {"shape:" + x for x in s["word"]}
            if any(SHAPES[x]["asy"] for x in s["word"]):
                tags.add("async")
            report.violation(s["key"], tags, sig, detail, state=s, source=engine.standalone_source(u), meta=dict(mode="run"))


def run(report, tier):
    states, transitions, bound = enumerate_states(tier)
    report.space(len(states), transitions, bound,
                 "BFS over method words (shapes %s) x {static, dyn} selection x dependency-bound assignments %s, two competing targets; "
                 "every state non-trivial" % (ORDER, list(BOUNDS)))
    common.evaluate_chunked(evaluate, states, report, tier)
