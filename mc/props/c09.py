"""C09 - an entraited trait definition is preserved.

State  = default trait `pub trait T { fn m(&self, a: i64) -> i64; }` + <= k deviations over 13 syntactic
         dimensions (attributes above/below, visibility, unsafe, generics, supertraits, where clause, method
         attributes, default body, associated type, async, second method, entrait options).
Model  = identity, modulo the two permitted edits: the documented async rewrite and attributes the macro
         owns (mock derivations, nested entrait, re-applied async_trait).
Impl   = structural diff (syn) between the trait the macro was given and the same-named trait it emitted;
         plus a client crate that implements and uses the trait relying on exactly the preserved parts
         (default method bodies, associated types, supertraits), compiled and run.
"""
import itertools

from .. import engine, common

ID = "C09"

ATTRS = {"doc": "/// trait doc", "allow": "#[allow(dead_code)]", "must": "#[must_use]", "cfg": "#[cfg(all())]", "depr": "#[deprecated]"}
AW = [()] + [(a,) for a in ATTRS] + [(a, b) for a in ATTRS for b in ATTRS if a != b]
MATTRS = {"doc": "/// method doc", "allow": "#[allow(unused)]", "must": "#[must_use]", "cfg": "#[cfg(all())]"}

DIMS = {
    "above": AW,
    "below": AW,
    "vis": ["pub", "", "pub(crate)", "pub(super)"],
    "unsafe": [False, True],
    "generics": ["", "<X>", "<X: Clone>", "<X = u32>", "<'a>", "<const N: usize>", "<const N: usize = 3>", "<X: Clone + Default = u32>"],
    "supers": ["", ": Sized", ": Send + Sync", ": 'static", ": ::core::fmt::Debug"],
    "where": ["", "where Self: Sized", "where u8: Copy, Self: Send", "where Self: Send, Self: Sync, u8: Copy, u8: Clone"],
    "mattrs": [()] + [(a,) for a in MATTRS],
    "pattr": [False, True],     # an attribute on a method parameter
    "ppat": ["", "wild", "mut", "at"],   # the parameter declared with a pattern (`mut` / `@` only together with a default body)
    "body": [False, True],
    "assoc": ["", "type A;", "type A: Clone + Default;", "type A; fn g(&self) -> Self::A;"],
    "async": [False, True, "at"],      # "at": async fn + `#[async_trait]` below entrait (and on the user's impl)
    "second": ["", "fn n(&self);", "fn m2(&self, a: i64) -> i64;", "fn r<'x>(&'x self, s: &'x str) -> &'x str;", "fn gen<Y: Clone>(&self, y: Y) -> Y;"],
    "opts": ["", "mock_api = TMock", "mockall", "unimock", "delegate_by = ref", "delegate_by = Borrow", "?Send",
             "TImpl, delegate_by = DelegateT", "TImpl, delegate_by = ref", "pub(crate) TImpl, delegate_by = DelegateT"],
}
ORDER = list(DIMS)


def enumerate_states(tier):
    k = 3 if tier == "thorough" else 2
    states, transitions = [], 0
    for n in range(0, k + 1):
        for combo in itertools.combinations(range(len(ORDER)), n):
            ranges = [range(1, len(DIMS[ORDER[d]])) for d in combo]
            for choice in itertools.product(*ranges):
                dev = {ORDER[d]: c for d, c in zip(combo, choice)}
                if tier == "thorough" and n == 3 and ("above" in dev and dev["above"] > 5 or "below" in dev and dev["below"] > 5):
                    continue   # three-way combinations use single attributes only
                if "above" in dev and "below" in dev and set(DIMS["above"][dev["above"]]) & set(DIMS["below"][dev["below"]]):
                    continue   # the same attribute twice is the user's own error (e.g. multiple `deprecated`)
                if DIMS["ppat"][dev.get("ppat", 0)] in ("mut", "at") and not dev.get("body"):
                    continue   # binding modes are not Rust in a declaration without body
                key = "t_" + ("_".join("%s%d" % (d[:3], dev[d]) for d in ORDER if d in dev) or "default")
                states.append(dict(key=key, dev=dev))
                transitions += n
    if k < 3:
        # three-way interactions around a PROVIDED method, in the quick tier too: the rewritten async body and the delegation-target trait
        # (which drops the body) each build the method a second time
        seen = {s["key"] for s in states}
        for ma in range(1, len(DIMS["mattrs"])):
            for third in [("async", 1), ("async", 2), ("pattr", 1)] + [("opts", i) for i in range(1, len(DIMS["opts"]))]:
                dev = {"mattrs": ma, "body": 1, third[0]: third[1]}
                key = "t_" + "_".join("%s%d" % (d[:3], dev[d]) for d in ORDER if d in dev)
                if key not in seen:
                    states.append(dict(key=key, dev=dev))
                    transitions += 3
    if k < 3:
        seen = {s["key"] for s in states}
        for pp in range(1, len(DIMS["ppat"])):
            for third in [("async", 1), ("async", 2)] + [("opts", i) for i in range(1, len(DIMS["opts"]))]:
                dev = {"ppat": pp, "body": 1, third[0]: third[1]}
                key = "t_" + "_".join("%s%d" % (d[:3], dev[d]) for d in ORDER if d in dev)
                if key not in seen:
                    states.append(dict(key=key, dev=dev))
                    transitions += 3
    return states, max(transitions, 1), dict(deviations=k, dimensions={d: len(v) for d, v in DIMS.items()})


def val(s, d):
    return DIMS[d][s["dev"].get(d, 0)]


def dyn_compatible(s):
    # shapes outside the supported class for dyn delegation (pruned by rule for ref / Borrow / dyn target)
    return not (val(s, "assoc") or "gen<" in val(s, "second") or val(s, "supers") == ": Sized" or "Self: Sized" in val(s, "where")
                or (val(s, "async") and not (val(s, "async") == "at")))   # (native async fn is not dyn-compatible)


def trait_src(s):
    L = []
    L += [ATTRS[a] for a in val(s, "above")]
    L.append("#[::entrait::entrait(%s)]" % val(s, "opts"))
    L += [ATTRS[a] for a in val(s, "below")]
    if (val(s, "async") == "at"):
        L.append("#[::async_trait::async_trait]")
    head = "%s %strait T%s%s %s {" % (val(s, "vis"), "unsafe " if val(s, "unsafe") else "", val(s, "generics"), val(s, "supers"), val(s, "where"))
    L.append(head)
    if val(s, "assoc"):
        L.append("    " + val(s, "assoc"))
    L += ["    " + MATTRS[a] for a in val(s, "mattrs")]
    pat = {"": "a", "wild": "_", "mut": "mut a", "at": "a @ _"}[val(s, "ppat")]
    sig = "%sfn m(&self, %s%s: i64) -> i64" % ("async " if val(s, "async") else "", "#[allow(unused_variables)] " if val(s, "pattr") else "", pat)
    body = {"": "{ a + 100 }", "wild": "{ 101 }", "mut": "{ a += 100; a }", "at": "{ a + 100 }"}[val(s, "ppat")]
    L.append("    " + sig + (" " + body if val(s, "body") else ";"))
    if val(s, "second"):
        L.append("    " + val(s, "second"))
    L.append("}")
    return L


def generic_args(s):
    return {"": "", "<X>": "<u32>", "<X: Clone>": "<u32>", "<X = u32>": "", "<'a>": "<'static>", "<const N: usize>": "<3>",
            "<const N: usize = 3>": "", "<X: Clone + Default = u32>": ""}[val(s, "generics")]


def render(s):
    key = s["key"]
    ga = generic_args(s)
    L = ["mod %s {" % key, "    use super::rt;"]
    L += ["    " + l for l in trait_src(s)]
    # the user's own implementation, relying on what the trait definition says
    L.append("    #[derive(Debug)] pub struct App;")
    us = "unsafe " if val(s, "unsafe") else ""
    items = []
    if "type A" in val(s, "assoc"):
        items.append("type A = u8;")
    if "fn g" in val(s, "assoc"):
        items.append("fn g(&self) -> u8 { 9 }")
    if not val(s, "body"):
        items.append("%sfn m(&self, a: i64) -> i64 { a + 1 }" % ("async " if val(s, "async") else ""))
    sec = val(s, "second")
    if sec.startswith("fn n"):
        items.append("fn n(&self) {}")
    elif sec.startswith("fn m2"):
        items.append("fn m2(&self, a: i64) -> i64 { a + 2 }")
    elif sec.startswith("fn r"):
        items.append("fn r<'x>(&'x self, s: &'x str) -> &'x str { s }")
    elif sec.startswith("fn gen"):
        items.append("fn gen<Y: Clone>(&self, y: Y) -> Y { y }")
    if (val(s, "async") == "at"):
        L.append("    #[::async_trait::async_trait]")
    L.append("    #[allow(deprecated)] %simpl T%s for App { %s }" % (us, ga, " ".join(items)))
    call = "T%s::m(&App, 1)" % ("::" + ga if ga else "")
    call = "<App as T%s>::m(&App, 1)" % ga
    if val(s, "async"):
        call = "rt::block_on(%s)" % call
    L.append("    #[allow(deprecated)] pub fn client() {")
    L.append('        rt::out("m", %s);' % call)
    L += ["    }", "}"]
    return engine.Unit(key, "\n".join(L), 'rt::run("%s", %s::client);' % (key, key), s)


OWNED = ("cfg_attr", "::entrait::entrait", "::entrait::__unimock::unimock", "::mockall::automock")


def nospace(x):
    return x.replace(" ", "")


def diff_trait(ti, to, s):
    """Field-by-field comparison of input trait `ti` and emitted trait `to` -> list of (signature, detail)."""
    P = []
    if nospace(ti["vis"]) != nospace(to["vis"]):
        P.append(("visibility", "%r -> %r" % (ti["vis"], to["vis"])))
    if ti["unsafety"] != to["unsafety"]:
        P.append(("unsafe-lost", ""))
    if ti["auto"] != to["auto"]:
        P.append(("auto-lost", ""))
    ai = [nospace(a["tokens"]) for a in ti["attrs"]]
    ao = [nospace(a["tokens"]) for a in to["attrs"]]
    rest = list(ao)
    for a in ai:
        if a in rest:
            rest.remove(a)
        else:
            P.append(("trait-attribute-lost", a))
    for a in rest:
        if not any(a.startswith("#[" + o.replace(" ", "")) for o in OWNED):
            P.append(("trait-attribute-added", a))
    gi = [nospace(p["tokens"]) for p in ti["generics"]["params"]]
    go = [nospace(p["tokens"]) for p in to["generics"]["params"]]
    if gi != go:
        P.append(("generics-changed", "%s -> %s" % (gi, go)))
    wi = sorted(nospace(w["tokens"]) for w in ti["generics"]["where"])
    wo = sorted(nospace(w["tokens"]) for w in to["generics"]["where"])
    if wi != wo:
        P.append(("where-clause-changed", "%s -> %s" % (wi, wo)))
    if sorted(map(nospace, ti["supertraits"])) != sorted(map(nospace, to["supertraits"])):
        P.append(("supertraits-changed", "%s -> %s" % (ti["supertraits"], to["supertraits"])))
    # items, in order
    oi = list(to["items"])
    names_in = [(x["k"], x.get("ident") or x.get("sig", {}).get("ident")) for x in ti["items"]]
    names_out = [(x["k"], x.get("ident") or x.get("sig", {}).get("ident")) for x in oi]
    for n in names_in:
        if n not in names_out:
            P.append(("item-lost:" + n[0], "`%s`" % n[1]))
    for n in names_out:
        if n not in names_in:
            P.append(("item-added:" + n[0], "`%s`" % n[1]))
    if [n for n in names_out if n in names_in] != [n for n in names_in if n in names_out]:
        P.append(("item-order-changed", "%s -> %s" % (names_in, names_out)))
    for x in ti["items"]:
        y = next((z for z in oi if z["k"] == x["k"] and (z.get("ident") or z.get("sig", {}).get("ident")) == (x.get("ident") or x.get("sig", {}).get("ident"))), None)
        if y is None:
            continue
        if x["k"] == "type":
            if nospace(x["tokens"]) != nospace(y["tokens"]):
                P.append(("associated-type-changed", "%s -> %s" % (x["tokens"], y["tokens"])))
            continue
        if x["k"] != "fn":
            continue
        name = x["sig"]["ident"]
        if sorted(nospace(a["tokens"]) for a in x["attrs"]) != sorted(nospace(a["tokens"]) for a in y["attrs"]):
            P.append(("method-attribute-changed", "%s: %s -> %s" % (name, [a["tokens"] for a in x["attrs"]], [a["tokens"] for a in y["attrs"]])))
        sx, sy = x["sig"], y["sig"]
        same_inputs = [nospace(a["tokens"]) for a in sx["inputs"]] == [nospace(a["tokens"]) for a in sy["inputs"]]
        same_generics = nospace(sx["generics"]["tokens_params"]) == nospace(sy["generics"]["tokens_params"]) and \
            sorted(nospace(w["tokens"]) for w in sx["generics"]["where"]) == sorted(nospace(w["tokens"]) for w in sy["generics"]["where"])
        if not same_inputs or not same_generics or sx["unsafety"] != sy["unsafety"] or sx["constness"] != sy["constness"] or sx["abi"] != sy["abi"]:
            P.append(("method-signature-changed", "%s -> %s" % (sx["tokens"], sy["tokens"])))
        async_trait = any("async_trait" in a["path"] for a in ti["attrs"])
        if sx["asyncness"] and not async_trait:
            ret = sx["output"] or "()"
            want = nospace("impl ::core::future::Future<Output = %s>" % ret)
            got = nospace(sy["output"] or "")
            send = "?Send" not in val(s, "opts")
            ok = (not sy["asyncness"]) and got.startswith(want) and (("::core::marker::Send" in got) == send)
            if not ok:
                P.append(("async-rewrite-wrong", "%s -> %s" % (sx["tokens"], sy["tokens"])))
        else:
            if sx["asyncness"] != sy["asyncness"] or nospace(sx["output"] or "") != nospace(sy["output"] or ""):
                P.append(("method-signature-changed", "%s -> %s" % (sx["tokens"], sy["tokens"])))
        dx, dy = x.get("default"), y.get("default")
        if (dx is None) != (dy is None):
            P.append(("default-body-lost" if dx else "default-body-added", name))
        elif dx is not None and (not sx["asyncness"] or async_trait) and nospace(dx) != nospace(dy):
            P.append(("default-body-changed", "%s -> %s" % (dx, dy)))
        elif dx is not None and sx["asyncness"] and not async_trait and nospace(dx).strip("{}") not in nospace(dy):
            P.append(("default-body-changed", "%s -> %s" % (dx, dy)))
    return P


def tags_of(s):
    t = set()
    for d, c in s["dev"].items():
        t.add(d)
        t.add("%s:%d" % (d, c))
    if val(s, "assoc"):
        t.add("trait:assoc-type")
    if val(s, "body"):
        t.add("trait:default-body")
    if val(s, "async"):
        t.add("trait:async")
    o = val(s, "opts")
    t.add("deleg:" + ("target" if "TImpl" in o else "ref" if "ref" in o or "Borrow" in o else "self"))
    return t


def evaluate(states, report, tier):
    units = [render(s) for s in states]
    results, stats = engine.execute(units, feature=False, mode="run")
    report.phases.append(dict(stats))
    reqs, keys = [], []
    for s in states:
        recs = [r for r in results[s["key"]].records if "output_tt" in r]
        if recs:
            reqs.append(dict(op="file", tt=recs[0]["input_tt"]))
            keys.append((s["key"], "in"))
            reqs.append(dict(op="file", tt=recs[0]["output_tt"]))
            keys.append((s["key"], "out"))
    views = dict(zip(keys, engine.tokview(reqs)))
    for s, u in zip(states, units):
        res = results[s["key"]]
        problems = []
        obs = {}
        if any("panic" in r for r in res.records):
            problems.append(("macro-panic", str([r.get("panic") for r in res.records])))
        vi, vo = views.get((s["key"], "in")), views.get((s["key"], "out"))
        rejected = False
        if vi and vo and "error" not in vi and "error" not in vo:
            ti = next((x for x in vi["items"] if x["k"] == "trait"), None)
            to = next((x for x in vo["items"] if x["k"] == "trait" and x["ident"] == "T"), None)
            if to is None:
                rejected = any(x["k"] == "macro" and "compile_error" in x["path"] for x in vo["items"])
                problems.append(("rejected" if rejected else "trait-missing-from-output", str([x["k"] for x in vo["items"]])[:200]))
            elif ti is not None:
                problems += diff_trait(ti, to, s)
        elif not any("panic" in r for r in res.records):
            problems.append(("unparsable", str(vo)[:200]))
        # behaviour: the user's impl + client relies on the trait as written
        unimock_off = val(s, "opts") == "unimock"   # feature off: ::entrait::__unimock does not exist (C10's business)
        o = val(s, "opts")
        supported_dyn = not any(x in o for x in ("ref", "Borrow")) or (dyn_compatible(s) and val(s, "supers") in ("", ": 'static"))
        if "TImpl" in o and (val(s, "generics") or val(s, "supers") not in ("", ": 'static")):
            supported_dyn = False
        if any(x in o for x in ("ref", "Borrow")) and (val(s, "generics") or (val(s, "async") == "at" and "Sync" not in val(s, "supers"))):
            # dyn delegation of a generic trait needs `X: 'static` (default object lifetime), and an async_trait'd trait behind a
            # reference needs `: Sync`: both are requirements on the user's trait, not on the macro (C06 exercises the working forms)
            supported_dyn = False   # generic trait / supertraits + delegation target: not supported by the macro (TODO in its source), outside C09
        if not rejected and not unimock_off and supported_dyn:
            if res.errors:
                problems.append((res.compile_sig(s["key"]), "\n".join(res.brief_errors()[:5])))
            elif res.crashed or "__panic" in res.out:
                problems.append(("client-crash", str(res.crashed or res.out.get("__panic"))))
            else:
                obs["m"] = res.first("m")
                want = "101" if val(s, "body") else "2"
                if obs["m"] != want:
                    problems.append(("behaviour", "m(1) = %r, the trait as written gives %s" % (obs["m"], want)))
        report.observe(s["key"], "identity", obs if not problems else dict(obs, problems=sorted(set(p[0] for p in problems))),
                       nontrivial=bool(s["dev"]), sample=dict(source="\n".join(trait_src(s))), evals=2)
        done = set()
        for sig, detail in problems:
            if sig in done:
                continue
            done.add(sig)
            report.violation(s["key"], tags_of(s), sig, detail, state=s, source=engine.standalone_source(u), meta=dict(mode="run"))


def run(report, tier):
    states, transitions, bound = enumerate_states(tier)
    report.space(len(states), transitions, bound,
                 "default trait + bounded deviations over dimensions %s; dyn delegation of traits that are not dyn-compatible is outside the "
                 "supported class (behavioural part skipped by rule); non-trivial = differs from the default" % ORDER)
    common.evaluate_chunked(evaluate, states, report, tier)
