"""C05 - concrete-dependency functions yield a leaf trait any application can adopt.

State  = (concrete type shape, sync/async, owned/borrowed return, argument word over {i64, &str}).
Model  = f(&c, a..), c.f(a..), <Impl<C> as Tr>::f(..) and <Impl<App> as Tr>::f(..) (App adopting the trait by hand and
         forwarding to its own C) all run the original function exactly once with the respective C as dependency
         (address), arguments in order, same result; Impl<X> implements the trait iff X does (and X: Sync + 'static).
Impl   = compiled + executed client; runtime availability probes.
"""
import itertools

from .. import engine, common, gen

ID = "C05"

# shape -> (prelude items, type, constructor, expression borrowing a &str out of `deps`, description)
SHAPES = {
    "ident": ("pub struct Cfg { pub name: String }", "Cfg", 'Cfg { name: "nm".to_string() }', "&deps.name"),
    "path": ("pub mod cfgmod { pub struct Cfg { pub name: String } }", "cfgmod::Cfg", 'cfgmod::Cfg { name: "nm".to_string() }', "&deps.name"),
    "generic": ("pub struct Gen<T> { pub v: T, pub name: String }", "Gen<u8>", 'Gen { v: 1u8, name: "nm".to_string() }', "&deps.name"),
    "tuple": ("pub struct Cfg { pub name: String }", "(u8, Cfg)", '(1u8, Cfg { name: "nm".to_string() })', "&deps.1.name"),
    "array": ("pub struct Cfg { pub name: String }", "[Cfg; 1]", '[Cfg { name: "nm".to_string() }]', "&deps[0].name"),
    "reference": ("", "&'static str", '"nm"', "deps"),
    # a concrete type with a lifetime parameter: elided, and named by a lifetime parameter of the function
    "ltelided": ("pub struct Ctx<'c> { pub name: &'c str }", "Ctx<'_>", 'Ctx { name: "nm" }', "deps.name", "", "Ctx<'static>"),
    "ltparam": ("pub struct Ctx<'c> { pub name: &'c str }", "Ctx<'c>", 'Ctx { name: "nm" }', "deps.name", "'c", "Ctx<'static>"),
}
ARGS = {"i": ("i64", "{v}", "{v}"), "s": ("&str", '"s{v}"', "s{v}"), "g": ("T", "{v}i64", "{v}")}
TGEN = "T: ::core::fmt::Display + ::core::marker::Send + ::core::marker::Sync"


def enumerate_states(tier):
    maxlen = 3 if tier == "thorough" else 2
    words, transitions = common.words("isg", maxlen)
    states = []
    for shape in SHAPES:
        for asy in (False, True):
            for borrowed in (False, True):
                if shape == "ident":
                    for w in (("i",), ("i", "i")):
                        states.append(dict(key="c_stamped_%s_%s_%s" % ("a" if asy else "s", "bor" if borrowed else "own", "".join(w)),
                                           shape=shape, asy=asy, borrowed=borrowed, word="".join(w), maybe_send=False, stamped=True))
                if shape != "ltparam":
                    # .. and with the concrete type passed as a `$t:ty` fragment (it then arrives wrapped in an invisible group)
                    states.append(dict(key="c_stampty_%s_%s_%s" % (shape, "a" if asy else "s", "bor" if borrowed else "own"),
                                       shape=shape, asy=asy, borrowed=borrowed, word="i", maybe_send=False, stamped="ty"))
                for w in words:
                    for ms in ((False, True) if asy else (False,)):
                        states.append(dict(key="c_%s_%s_%s_%s%s" % (shape, "a" if asy else "s", "bor" if borrowed else "own", "".join(w) or "0", "_ms" if ms else ""),
                                           shape=shape, asy=asy, borrowed=borrowed, word="".join(w), maybe_send=ms))
    return states, len(states), dict(shapes=list(SHAPES), arg_word_len=maxlen)


def render(s):
    key = s["key"]
    pre, ty, ctor, name_expr = SHAPES[s["shape"]][:4]
    flt = SHAPES[s["shape"]][4] if len(SHAPES[s["shape"]]) > 4 else ""
    sty = SHAPES[s["shape"]][5] if len(SHAPES[s["shape"]]) > 5 else ty
    params = ["a%d: %s" % (i, ARGS[k][0]) for i, k in enumerate(s["word"])]
    args = [ARGS[k][1].format(v=10 + i) for i, k in enumerate(s["word"])]
    shows = ["a%d" % i for i in range(len(s["word"]))]
    asyk = "async " if s["asy"] else ""
    tg = TGEN if "g" in s["word"] else ""
    if s["borrowed"]:
        sig = "pub %sfn f<'d%s%s>(deps: &'d %s%s) -> &'d str" % (asyk, ", " + flt if flt else "", ", " + tg if tg else "", ty, "".join(", " + p for p in params))
        ret_ty = "&str"
        result = name_expr
    else:
        sig = "pub %sfn f%s(deps: &%s%s) -> String" % (asyk, "<%s>" % ", ".join(x for x in (flt, tg) if x) if (tg or flt) else "", ty, "".join(", " + p for p in params))
        ret_ty = "String"
        result = gen.fmt_call("R", shows)
    ms = s.get("maybe_send")
    # under ?Send the body really is not Send: an Rc lives across the await
    body = ("let rc = ::std::rc::Rc::new(1u8); " if ms else "") + ("rt::yield_once().await; " if s["asy"] else "") + ("drop(rc); " if ms else "") + \
        "rt::ev(%s); %s" % (gen.fmt_call("E", ['format!("{:x}", rt::addr(deps))'] + shows), result)
    L = ["mod %s {" % key, "    use super::rt;"]
    if pre:
        L.append("    " + pre)
    if s.get("stamped") == "ty":
        L.append("    macro_rules! stamp { ($t:ty) => {")
        L.append("    #[::entrait::entrait(pub Tr%s)]" % (", ?Send" if ms else ""))
        L.append("    %s { %s }" % (sig.replace("deps: &%s" % ty, "deps: &$t").replace("deps: &'d %s" % ty, "deps: &'d $t"), body))
        L.append("    } }")
        L.append("    stamp!(%s);" % ty)
    elif s.get("stamped"):
        # the function is stamped out by macro_rules, the concrete dependency type is a macro argument
        L.append("    macro_rules! stamp { ($t:ident) => {")
        L.append("    #[::entrait::entrait(pub Tr%s)]" % (", ?Send" if ms else ""))
        L.append("    %s { %s }" % (sig.replace("&Cfg", "&$t").replace("&'d Cfg", "&'d $t"), body))
        L.append("    } }")
        L.append("    stamp!(Cfg);")
    else:
        L.append("    #[::entrait::entrait(pub Tr%s)]" % (", ?Send" if ms else ""))
        L.append("    %s { %s }" % (sig, body))
    # an application adopting the leaf trait by hand (README case 1), and Sync-only / unrelated probe types
    hand_params = "".join(", " + p for p in params)
    hand_args = ", ".join(shows)
    if s["asy"]:
        hret = "impl ::core::future::Future<Output = %s>%s" % ("&'d str" if s["borrowed"] else "String", "" if ms else " + ::core::marker::Send")
        hsig = "fn f%s(&%sself%s) -> %s" % ("<'d>" if s["borrowed"] else "", "'d " if s["borrowed"] else "", hand_params, hret)
    else:
        hsig = "fn f%s(&%sself%s) -> %s" % ("<'d>" if s["borrowed"] else "", "'d " if s["borrowed"] else "", hand_params, "&'d str" if s["borrowed"] else "String")
    # (type parameters of the fn are lifted to the generated trait: `Tr<T>`)
    TRI = "impl<%s> Tr<T>" % tg if tg else "impl Tr"
    TRA = "Tr<i64>" if tg else "Tr"
    L.append("    pub struct App { pub c: %s, pub other: u8 }" % sty)
    L.append("    %s for App { %s { Tr::f(&self.c%s) } }" % (TRI, hsig, "".join(", " + a for a in shows)))
    L.append("    pub struct BareApp { pub c: %s, pub m: rt::BareMarker }" % sty)
    L.append("    %s for BareApp { %s { Tr::f(&self.c%s) } }" % (TRI, hsig, "".join(", " + a for a in shows)))
    L.append("    pub struct NoTrait; pub struct NotSyncApp { pub c: %s, pub m: rt::NotSyncMarker }" % sty)
    if not s["asy"]:
        L.append("    %s for NotSyncApp { %s { Tr::f(&self.c%s) } }" % (TRI, hsig, "".join(", " + a for a in shows)))

    def wrap(e):
        return "rt::block_on(%s)" % e if s["asy"] else e
    a = "".join(", " + x for x in args)
    L.append("    pub fn client() {")
    L.append("        let c = %s;" % ctor)
    L.append('        { let r = %s; rt::out("direct", format!("{}##{}##{:x}", rt::take(), r, rt::addr(&c))); }' % wrap("f(&c%s)" % a))
    L.append('        { let r = %s; rt::out("on_c", format!("{}##{}##{:x}", rt::take(), r, rt::addr(&c))); }' % wrap("Tr::f(&c%s)" % a))
    L.append("        let ic = ::entrait::Impl::new(%s);" % ctor)
    L.append('        { let r = %s; rt::out("impl_c", format!("{}##{}##{:x}", rt::take(), r, rt::addr(&*ic))); }'
             % wrap("<::entrait::Impl<%s> as %s>::f(&ic%s)" % (sty, TRA, a)))
    L.append("        let iapp = ::entrait::Impl::new(App { c: %s, other: 0 });" % ctor)
    L.append('        { let r = %s; rt::out("impl_app", format!("{}##{}##{:x}", rt::take(), r, rt::addr(&iapp.c))); }'
             % wrap("<::entrait::Impl<App> as %s>::f(&iapp%s)" % (TRA, a)))
    probes = ["%s" % sty, "::entrait::Impl<%s>" % sty, "App", "::entrait::Impl<App>", "::entrait::Impl<BareApp>", "NoTrait", "::entrait::Impl<NoTrait>",
              "::entrait::Impl<NotSyncApp>", "::entrait::Impl<::entrait::Impl<App>>"]
    L.append('        rt::out("avail", [%s].iter().map(|b| if *b { "1" } else { "0" }).collect::<String>());'
             % ", ".join("implements!(%s: %s)" % (t, TRA) for t in probes))
    L += ["    }", "}"]
    return engine.Unit(key, "\n".join(L), 'rt::run("%s", %s::client);' % (key, key), s)


def model(s):
    shown = [ARGS[k][2].format(v=10 + i) for i, k in enumerate(s["word"])]
    result = "nm" if s["borrowed"] else "|".join(["R"] + shown)
    # C, Impl<C>, App, Impl<App>, Impl<BareApp>, NoTrait, Impl<NoTrait>, Impl<NotSyncApp>, Impl<Impl<App>>
    return dict(trace_tail="|".join(shown), result=result, avail="111110001")


def evaluate(states, report, tier):
    units = [render(s) for s in states]
    results, stats = engine.execute(units, feature=False, mode="run")
    report.phases.append(dict(stats))
    for s, u in zip(states, units):
        res = results[s["key"]]
        m = model(s)
        problems, obs = [], {}
        if any("panic" in r for r in res.records):
            problems.append(("macro-panic", str([r.get("panic") for r in res.records])))
        elif res.errors:
            problems.append((res.compile_sig(s["key"]), "\n".join(res.brief_errors()[:5])))
        elif res.crashed or "__panic" in res.out:
            problems.append(("client-crash", str(res.crashed or res.out.get("__panic"))))
        else:
            for name in ("direct", "on_c", "impl_c", "impl_app"):
                got = res.first(name, "")
                parts = got.split("##")
                trace, result, addr = parts[0], parts[1] if len(parts) > 1 else "", parts[2] if len(parts) > 2 else ""
                want = "E|" + addr + ("|" + m["trace_tail"] if m["trace_tail"] else "")
                obs[name] = [trace.replace(addr, "<c>"), result]
                if trace != want:
                    events = trace.split(";") if trace else []
                    sig = "trace:%d-events" % len(events) if len(events) != 1 else \
                        "trace:wrong-receiver" if trace.split("|")[1:2] != [addr] else "trace:wrong-arguments"
                    problems.append((sig + ":" + name, "%s: trace %r, model says %r" % (name, trace, want)))
                if result != m["result"]:
                    problems.append(("result:" + name, "%r, model says %r" % (result, m["result"])))
            obs["avail"] = res.first("avail")
            if obs["avail"] != m["avail"]:
                names = ["C", "Impl<C>", "App (hand impl)", "Impl<App>", "Impl<BareApp (Sync only)>", "NoTrait", "Impl<NoTrait>", "Impl<NotSyncApp>", "Impl<Impl<App>>"]
                diffs = ["%s: Tr is %s, model says %s" % (n, g, w_) for n, g, w_ in zip(names, obs["avail"] or "", m["avail"]) if g != w_]
                problems.append(("availability:" + ("requirement-added" if any("is 0" in d for d in diffs) else "too-wide"), "; ".join(diffs)))
        report.observe(s["key"], m, obs if not problems else dict(obs, problems=sorted(set(p[0] for p in problems))),
                       nontrivial=True, sample=dict(source=u.src), evals=4 * 2 + 9)
        done = set()
        for sig, detail in problems:
            if sig in done:
                continue
            done.add(sig)
            tags = {"shape:" + s["shape"], "async" if s["asy"] else "sync", "borrowed" if s["borrowed"] else "owned", "arity:%d" % len(s["word"]),
                    "maybe_send" if s.get("maybe_send") else "send"}
            report.violation(s["key"], tags, sig, detail, state=s, source=engine.standalone_source(u), meta=dict(mode="run"))


def run(report, tier):
    states, transitions, bound = enumerate_states(tier)
    report.space(len(states), transitions, bound,
                 "concrete type shapes %s x sync/async x owned/borrowed return x argument words over {i64, &str}; every state non-trivial" % list(SHAPES))
    evaluate(states, report, tier)
