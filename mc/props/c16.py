"""C16 - generated parameter names are usable for every parameter pattern list.

State  = (pattern word over a 14-symbol alphabet, context {generic deps, no_deps, module fn, impl-block fn},
          function name {f, r#type}).
Model  = the naming *specification* from the statement (not the macro's algorithm): one plain identifier
         per parameter, pairwise distinct, not the callee's name, plain bindings and single-binding
         destructurings keep the binding's name (unless that is the callee's name), anything else is free.
Impl   = parameter list of the generated method in the recorded expansion + the program compiles + the
         trait call forwards position-coded arguments positionally (trace).
"""
from .. import engine, common, gen

ID = "C16"

RAW = ["r#match", "r#loop", "r#while", "r#for", "r#if"]
# symbol -> (pattern, type, argument, shown expressions, bindings, kind)
#   kind: 'plain' (a plain binding: keeps its name), 'single' (destructuring with one binding: takes it),
#         'free' (anything else: any fresh name)


def sym(symbol, i, fname):
    """i = 0-based position among the non-deps parameters."""
    v = 10 + i
    n = "p%d" % i
    if symbol == "id":
        return dict(pat=n, ty="i64", arg=str(v), show=[n], exp=[str(v)], name=n, kind="plain")
    if symbol == "mut":
        return dict(pat="mut " + n, ty="i64", arg=str(v), show=[n], exp=[str(v)], name=n, kind="plain")
    if symbol == "ref":
        return dict(pat="ref " + n, ty="i64", arg=str(v), show=["*" + n], exp=[str(v)], name=n, kind="plain")
    if symbol == "raw":
        r = RAW[i]
        return dict(pat=r, ty="i64", arg=str(v), show=[r], exp=[str(v)], name=r, kind="plain")
    if symbol == "wild":
        return dict(pat="_", ty="i64", arg=str(v), show=[], exp=[], name=None, kind="free")
    if symbol == "tup":
        return dict(pat="(%sa, %sb)" % (n, n), ty="(i64, i64)", arg="(%d, %d)" % (v, v + 40), show=[n + "a", n + "b"],
                    exp=[str(v), str(v + 40)], name=None, kind="free")
    if symbol == "ts1":
        return dict(pat="N(%s)" % n, ty="N", arg="N(%d)" % v, show=[n], exp=[str(v)], name=n, kind="single")
    if symbol == "tsu":
        # destructuring whose single binding starts with an underscore
        return dict(pat="N(_%s)" % n, ty="N", arg="N(%d)" % v, show=["_" + n], exp=[str(v)], name="_" + n, kind="single")
    if symbol == "ts2":
        return dict(pat="N2(%s, _)" % n, ty="N2", arg="N2(%d, 0)" % v, show=[n], exp=[str(v)], name=n, kind="single")
    if symbol == "st":
        return dict(pat="S { f: %s }" % n, ty="S", arg="S { f: %d }" % v, show=[n], exp=[str(v)], name=n, kind="single")
    if symbol == "refpat":
        return dict(pat="&" + n, ty="&i64", arg="&%d" % v, show=[n], exp=[str(v)], name=n, kind="single")
    if symbol == "fnname":
        return dict(pat=fname, ty="i64", arg=str(v), show=[fname], exp=[str(v)], name=fname, kind="plain")
    if symbol == "gnext":
        nm = "arg%d" % (i + 1)
        return dict(pat=nm, ty="i64", arg=str(v), show=[nm], exp=[str(v)], name=nm, kind="plain")
    if symbol == "gprev":
        nm = "arg%d" % (i - 1) if i > 0 else "_arg1"
        return dict(pat=nm, ty="i64", arg=str(v), show=[nm], exp=[str(v)], name=nm, kind="plain")
    if symbol == "suffix":
        nm = fname.replace("r#", "") + "_"
        return dict(pat=nm, ty="i64", arg=str(v), show=[nm], exp=[str(v)], name=nm, kind="plain")
    if symbol == "rawsuffix":
        # the raw spelling of the name the macro picks when a parameter is named like the function (`r#f_`): taken, to rustc
        nm = "r#" + fname.replace("r#", "") + "_"
        return dict(pat=nm, ty="i64", arg=str(v), show=[nm], exp=[str(v)], name=nm, kind="plain")
    if symbol == "rawfn":
        # the function's own name in the OTHER spelling (`r#f` for `f`, `g` for `r#g`): the same identifier to rustc
        nm = fname[2:] if fname.startswith("r#") else "r#" + fname
        return dict(pat=nm, ty="i64", arg=str(v), show=[nm], exp=[str(v)], name=nm, kind="plain")
    if symbol == "rawgen":
        # the raw spelling of the name the macro would generate for the next parameter
        nm = "r#arg%d" % (i + 1)
        return dict(pat=nm, ty="i64", arg=str(v), show=[nm], exp=[str(v)], name=nm, kind="plain")
    if symbol == "tsfn":
        # destructuring whose single binding is the callee's name
        return dict(pat="N(%s)" % fname, ty="N", arg="N(%d)" % v, show=[fname], exp=[str(v)], name=fname, kind="single")
    raise KeyError(symbol)


SYMS = ["id", "mut", "ref", "raw", "wild", "tup", "ts1", "ts2", "st", "refpat", "fnname", "gnext", "gprev", "suffix", "tsfn", "rawfn", "rawgen", "tsu", "rawsuffix"]
FNAMES = ["f", "r#type", "r#g", "arg1"]   # plain, raw keyword, raw non-keyword, spelled like a generated parameter name


def unraw(n):
    return n[2:] if n and n.startswith("r#") else n
CONTEXTS = ["gen", "nodeps", "mod", "impl", "trait", "traitreq", "stamped", "targetprov"]   # stamped: like gen, but written in a macro_rules body with the trait name as macro argument; targetprov: like impl, but the delegated trait PROVIDES the method with the same patterns
REQ_OK = {"id", "raw", "wild", "fnname", "gnext", "gprev", "suffix", "rawsuffix"}   # what a method WITHOUT a body may declare: identifiers and `_`


def valid(word, fname):
    names = []
    for i, s in enumerate(word):
        if s == "rawfn" and fname == "r#type":
            return False            # `type` cannot be written without r#
        d = sym(s, i, fname)
        names += [unraw(x.lstrip("*")) for x in d["show"]]
    return len(names) == len(set(names))


def enumerate_states(tier):
    maxlen = 4 if tier == "thorough" else 3
    words, transitions = common.words(SYMS, maxlen)
    states = []
    for w in words:
        for ctx in CONTEXTS:
            for fname in FNAMES:
                if fname != "f" and ctx not in ("gen", "mod"):
                    continue
                if fname in ("r#g", "arg1") and len(w) > 2 and tier != "thorough":
                    continue
                if ctx in ("trait", "traitreq", "stamped", "targetprov") and len(w) > 2 and tier != "thorough":
                    continue
                if ctx == "traitreq" and not set(w) <= REQ_OK:
                    continue
                if len(w) == maxlen and maxlen >= 3 and ctx not in ("gen", "impl") and tier != "thorough":
                    continue  # longest words: the two contexts with different call forms
                if not valid(w, fname):
                    continue
                key = "n_%s_%s_%s" % ("_".join(w) or "none", ctx, {"f": "f", "r#type": "raw", "r#g": "rawg", "arg1": "arg1"}[fname])
                states.append(dict(key=key, word=list(w), ctx=ctx, fname=fname))
    return states, sum(1 for s in states if s["word"]), dict(pattern_alphabet=len(SYMS), word_len=maxlen, contexts=CONTEXTS)


def render(s):
    key, w, ctx, fname = s["key"], s["word"], s["ctx"], s["fname"]
    ds = [sym(x, i, fname) for i, x in enumerate(w)]
    params = ["%s: %s" % (d["pat"], d["ty"]) for d in ds]
    shows = [e for d in ds for e in d["show"]]
    body = "rt::ev(%s); %s" % (gen.fmt_call("E", shows), gen.fmt_call("R", shows))
    L = ["mod %s {" % key, "    use super::rt;",
         "    pub struct N(pub i64); pub struct N2(pub i64, pub i64); pub struct S { pub f: i64 }"]
    args = ", ".join(d["arg"] for d in ds)
    if ctx == "gen":
        L += ["    #[::entrait::entrait(pub Tr)]",
              "    pub fn %s(deps: &impl ::core::any::Any, %s) -> String { %s }" % (fname, ", ".join(params), body)]
        direct = "%s(&app, %s)" % (fname, args)
    elif ctx == "stamped":
        L += ["    macro_rules! mk { ($t:ident) => {", "    #[::entrait::entrait(pub $t)]",
              "    pub fn %s(deps: &impl ::core::any::Any, %s) -> String { %s }" % (fname, ", ".join(params), body), "    } }", "    mk!(Tr);"]
        direct = "%s(&app, %s)" % (fname, args)
    elif ctx == "nodeps":
        L += ["    #[::entrait::entrait(pub Tr, no_deps)]",
              "    pub fn %s(%s) -> String { %s }" % (fname, ", ".join(params), body)]
        direct = "%s(%s)" % (fname, args)
    elif ctx == "mod":
        L += ["    #[::entrait::entrait(pub Tr)]", "    pub mod m {", "        use super::*;",
              "        pub fn %s(deps: &impl ::core::any::Any, %s) -> String { %s }" % (fname, ", ".join(params), body), "    }"]
        direct = "m::%s(&app, %s)" % (fname, args)
    elif ctx == "traitreq":
        # an entraited trait whose REQUIRED method declares these parameters
        L += ["    #[::entrait::entrait]",
              "    pub trait Tr { fn %s(&self, %s) -> String; }" % (fname, ", ".join(params)),
              "    pub struct App;",
              "    impl Tr for App { fn %s(&self, %s) -> String { %s } }" % (fname, ", ".join(params), body)]
        direct = "<App as Tr>::%s(&*app, %s)" % (fname, args)
    elif ctx == "trait":
        # an entraited trait whose method is PROVIDED with these parameter patterns; the application overrides it with plain names
        plain = ", ".join("q%d: %s" % (i, d["ty"]) for i, d in enumerate(ds))
        qshows = []
        for i, d in enumerate(ds):
            for e in d["show"]:
                qshows.append("0")   # (the trace of this context comes from the override below)
        L += ["    #[::entrait::entrait]",
              "    pub trait Tr { fn %s(&self, %s) -> String { ::std::string::String::from(\"default\") } }" % (fname, ", ".join(params)),
              "    pub struct App;",
              "    impl Tr for App { fn %s(&self, %s) -> String { %s } }" % (fname, ", ".join(params), body)]
        direct = "<App as Tr>::%s(&*app, %s)" % (fname, args)
    else:
        plain = ", ".join("q%d: %s" % (i, d["ty"]) for i, d in enumerate(ds))
        decl = "fn %s(&self, %s) -> String;" % (fname, plain)
        if ctx == "targetprov":
            decl = "fn %s(&self, %s) -> String { ::std::string::String::from(\"default\") }" % (fname, ", ".join(params))
        L += ["    #[::entrait::entrait(TrImpl, delegate_by = DelegateTr)]",
              "    pub trait Tr { %s }" % decl,
              "    pub struct X;",
              "    #[::entrait::entrait]",
              "    impl TrImpl for X {",
              "        pub fn %s(deps: &impl ::core::any::Any, %s) -> String { %s }" % (fname, ", ".join(params), body),
              "    }",
              "    pub struct App;",
              "    impl DelegateTr<Self> for App { type Target = X; }"]
        direct = "X::%s(&app, %s)" % (fname, args)
    appexpr = "::entrait::Impl::new(App)" if ctx in ("impl", "trait", "traitreq", "targetprov") else "::entrait::Impl::new(())"
    L += ["    pub fn client() {",
          "        let app = %s;" % appexpr,
          '        { let r = %s; rt::out("d", format!("{}##{}", rt::take(), r)); }' % direct,
          '        { let r = %s; rt::out("t", format!("{}##{}", rt::take(), r)); }' % (("<::entrait::Impl<App> as Tr>::%s(&app, %s)" % (fname, args)) if ctx in ("trait", "traitreq") else ("app.%s(%s)" % (fname, args))),
          "    }", "}"]
    return engine.Unit(key, "\n".join(L), 'rt::run("%s", %s::client);' % (key, key), s)


def model(s):
    ds = [sym(x, i, s["fname"]) for i, x in enumerate(s["word"])]
    exp = [e for d in ds for e in d["exp"]]
    want_names = []
    for d in ds:
        if d["kind"] in ("plain", "single") and unraw(d["name"]) != unraw(s["fname"]):
            want_names.append(d["name"])
        else:
            want_names.append(None)   # any fresh name
    return dict(trace="|".join(["E"] + exp), result="|".join(["R"] + exp), names=want_names)


def method_params(view, s):
    """Typed parameters of the generated method (trait method for fn/mod; trait-impl method for impl blocks)."""
    fname = s["fname"]

    def typed(sig):
        return [a for a in sig["inputs"] if a["k"] == "typed" and not a["pat"].startswith("__impl")]
    items = view.get("items", [])
    if s["ctx"] == "mod":
        items = [x for it in items if it["k"] == "mod" and it.get("items") for x in it["items"]]
    out = []
    for it in items:
        if it["k"] == "trait" and it["ident"] == "Tr" and s["ctx"] not in ("impl", "trait", "traitreq", "targetprov"):
            for f in it["items"]:
                if f["k"] == "fn" and f["sig"]["ident"] == fname:
                    out.append(("trait", typed(f["sig"])))
        if it["k"] == "impl" and it.get("trait") and (it["trait"].startswith("Tr") and s["ctx"] not in ("impl", "targetprov") or it["trait"].startswith("TrImpl")):
            for f in it["items"]:
                if f["k"] == "fn" and f["sig"]["ident"] == fname:
                    out.append(("impl", typed(f["sig"])))
    return out


def evaluate(states, report, tier):
    units = [render(s) for s in states]
    results, stats = engine.execute(units, feature=False, mode="run")
    report.phases.append(dict(stats))
    reqs, keys = [], []
    for s in states:
        recs = [r for r in results[s["key"]].records if "output_tt" in r]
        want_attr = "" if s["ctx"] in ("impl", "targetprov") else None
        for r in recs:
            if s["ctx"] in ("impl", "targetprov") and r["attr"].strip() != "":
                continue
            reqs.append(dict(op="file", tt=r["output_tt"]))
            keys.append(s["key"])
            break
    views = dict(zip(keys, engine.tokview(reqs)))
    for s, u in zip(states, units):
        res = results[s["key"]]
        m = model(s)
        problems = []
        obs = dict(names=None, compiled=not res.errors)
        panics = [r for r in res.records if "panic" in r]
        if panics:
            problems.append(("macro-panic", panics[0]["panic"]))
        else:
            v = views.get(s["key"])
            if not v or "error" in v:
                problems.append(("output-unparsable", str(v)[:300]))
            else:
                sigs = method_params(v, s)
                if not sigs:
                    problems.append(("no-generated-method", ""))
                for where, ps in sigs:
                    names = []
                    for a in ps:
                        pi = a["pat_info"]
                        if pi["kind"] != "ident" or pi.get("by_ref") or pi.get("mut") or pi.get("sub"):
                            problems.append(("not-a-plain-identifier:" + where, "parameter `%s` of the generated %s method" % (a["pat"], where)))
                            names.append(a["pat"])
                        else:
                            names.append(pi["ident"])
                    obs["names"] = names
                    if len(names) != len(s["word"]):
                        problems.append(("parameter-count", "%s vs %d patterns" % (names, len(s["word"]))))
                        continue
                    if len(set(unraw(n) for n in names)) != len(names):
                        problems.append(("duplicate-names", str(names)))
                    if s["ctx"] not in ("impl", "trait", "traitreq", "targetprov") and unraw(s["fname"]) in [unraw(n) for n in names]:
                        problems.append(("shadows-callee", "%s contains the function's own name `%s`" % (names, s["fname"])))
                    for i, (got, want) in enumerate(zip(names, m["names"])):
                        if want is not None and got != want:
                            problems.append(("binding-name-not-kept", "parameter %d is `%s`, the source binding is `%s`" % (i, got, want)))
        if not panics:
            if res.errors:
                problems.append((res.compile_sig(s["key"]),
                                 "\n".join(res.brief_errors()[:5])))
            elif res.crashed or "__panic" in res.out:
                problems.append(("client-crash", str(res.crashed or res.out.get("__panic"))))
            else:
                for name in ("d", "t"):
                    got = res.first(name, "")
                    want = m["trace"] + "##" + m["result"]
                    if got != want:
                        problems.append(("forwarding:" + ("direct" if name == "d" else "trait-call"), "%r, model says %r" % (got, want)))
                obs["trace"] = res.first("t")
        report.observe(s["key"], m, obs if not problems else dict(obs, problems=sorted(set(p[0] for p in problems))),
                       nontrivial=bool(s["word"]), sample=dict(source=u.src), evals=3)
        seen = set()
        for sig, detail in problems:
            if sig in seen:
                continue
            seen.add(sig)
            tags = {"ctx:" + s["ctx"], "fname:" + s["fname"]} | {"pat:" + x for x in s["word"]}
            report.violation(s["key"], tags, sig, detail, state=s, source=engine.standalone_source(u), meta=dict(mode="run"))


def run(report, tier):
    states, transitions, bound = enumerate_states(tier)
    report.space(len(states), transitions, bound,
                 "BFS over pattern words (alphabet %s) x contexts %s x fn name {f, r#type}; words binding a name twice are not Rust "
                 "and are pruned; non-trivial = at least one parameter" % (SYMS, CONTEXTS))
    common.evaluate_chunked(evaluate, states, report, tier)
