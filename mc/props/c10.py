"""C10 - mock code is generated only when enabled and is test-gated unless exported.

State space = the full lattice
  {entrait, entrait_export} x {feature off, on} x unimock{absent,true,false} x mock_api{absent,present}
  x mockall{absent,true,false} x export{absent,true,false} x {fn, mod, trait} x {cfg(test), not(test)}   (3024 points)
Model = the decision table read off the statement.
Impl  = (a) attributes on the emitted trait in the recorded expansion, (b) the compiled crate: does
        `Unimock: Tr` hold, does `MockTr` exist - as runtime booleans, in a test and in a non-test build.
"""
import itertools

from .. import engine, common

ID = "C10"
TRI = ["absent", "true", "false"]


def enumerate_states(tier):
    states = []
    for variant, feature, um, api, ma, ex, item, test, vis in itertools.product(
            ("entrait", "entrait_export"), (False, True), TRI, (False, True), TRI, TRI, ("fn", "mod", "trait", "fnconc"), (False, True),
            ("pub", "pub(crate)")):
        if item == "trait" and vis != "pub":
            continue     # (an entraited trait has no requested visibility)
        key = "x_%s_%s_u%s_%s_m%s_e%s_%s_%s_%s" % ("exp" if variant == "entrait_export" else "ent", "fon" if feature else "foff",
                                                   um[0], "api" if api else "noapi", ma[0], ex[0], item, "test" if test else "notest",
                                                   "pc" if vis != "pub" else "p")
        states.append(dict(key=key, variant=variant, feature=feature, unimock=um, api=api, mockall=ma, export=ex, item=item, test=test, vis=vis))
    # lattice edges: each point has one neighbour per changed dimension value
    transitions = len(states) * (1 + 1 + 2 + 1 + 2 + 2 + 3 + 1 + 1) // 2
    return states, transitions, dict(lattice_points=len(states))


def model(s):
    """Decision table, straight from the statement."""
    if s["item"] == "trait" and s["export"] != "absent":
        return dict(rejected=True)
    um_on = (s["unimock"] == "true") if s["unimock"] != "absent" else s["feature"]
    um_attached = um_on and (s["api"] or s["item"] == "trait")   # (a concrete-deps fn is a fn: it needs mock_api like any other)
    ma_attached = s["mockall"] == "true"
    exporting = (s["export"] == "true") if s["export"] != "absent" else (s["variant"] == "entrait_export")
    gate = "ungated" if exporting else "gated"
    active = exporting or s["test"]
    um_active = um_attached and active
    return dict(rejected=False,
                unimock=gate if um_attached else "none",
                mockall=gate if ma_attached else "none",
                # an active unimock derivation needs ::entrait::__unimock, which only exists with the feature
                compiles=not (um_active and not s["feature"]),
                unimock_impl=um_active, mock_struct=ma_attached and active)


def attr_text(s):
    parts = []
    if s["item"] in ("fn", "mod", "fnconc"):
        parts.append(s.get("vis", "pub") + " Tr")
    if s["unimock"] != "absent":
        parts.append("unimock = " + s["unimock"])
    if s["api"]:
        parts.append("mock_api = TrMock")
    if s["mockall"] != "absent":
        parts.append("mockall = " + s["mockall"])
    if s["export"] != "absent":
        parts.append("export = " + s["export"])
    return "#[::entrait::%s(%s)]" % (s["variant"], ", ".join(parts))


def render(s):
    key = s["key"]
    L = ["mod %s {" % key, "    use super::rt;",
         "    pub trait IsFallback {}",
         "    pub mod fallback { pub struct MockTr; impl super::IsFallback for MockTr {} %s }" % (
             "pub struct TrMock; impl super::IsFallback for TrMock {}" if s["item"] in ("fn", "fnconc") else
             "pub mod TrMock { pub struct f; impl super::super::IsFallback for f {} }"),
         "    use fallback::*;"]
    if s["item"] == "fn":
        L += ["    " + attr_text(s), "    pub fn f(deps: &impl ::core::any::Any, a: i64) -> i64 { a }"]
        mock, api = "MockTr", "TrMock"
    elif s["item"] == "fnconc":
        # concrete dependency: the generated trait carries a nested entrait invocation (for the Impl<T> forwarding)
        L += ["    pub struct Cfg;", "    " + attr_text(s), "    pub fn f(deps: &Cfg, a: i64) -> i64 { a }"]
        mock, api = "MockTr", "TrMock"
    elif s["item"] == "mod":
        L += ["    " + attr_text(s), "    pub mod m {", "        pub use super::fallback::*;",
              "        pub fn f(deps: &impl ::core::any::Any, a: i64) -> i64 { a }", "    }"]
        mock, api = "m::MockTr", "m::TrMock::f"
    else:
        L += ["    " + attr_text(s), "    pub trait Tr { fn f(&self, a: i64) -> i64; }"]
        mock, api = "MockTr", "TrMock::f"
    L += ["    pub fn client() {",
          '        rt::out("unimock_impl", implements!(::unimock::Unimock: Tr));',
          '        rt::out("unimock_api", !implements!(%s: IsFallback));' % api,
          '        rt::out("mock_struct", !implements!(%s: IsFallback));' % mock,
          "    }", "}"]
    return engine.Unit(key, "\n".join(L), 'rt::run("%s", %s::client);' % (key, key), s)


def classify_attrs(trait_item):
    um, ma = "none", "none"
    for a in trait_item["attrs"]:
        meta = a["meta"].replace(" ", "")
        if a["path"].replace(" ", "") == "cfg_attr":
            if not meta.startswith("cfg_attr(test,"):
                continue
            if "unimock(" in meta or "::unimock" in meta:
                um = "gated"
            if "automock" in meta:
                ma = "gated"
        else:
            p = a["path"].replace(" ", "")
            if p.endswith("::unimock") or p == "unimock":
                um = "ungated"
            if p.endswith("automock"):
                ma = "ungated"
    return um, ma


def find_trait(view):
    for it in view.get("items", []):
        if it["k"] == "trait" and it["ident"] == "Tr":
            return it
        if it["k"] == "mod" and it.get("items"):
            for x in it["items"]:
                if x["k"] == "trait" and x["ident"] == "Tr":
                    return x
    return None


def evaluate(states, report, tier):
    results, units = {}, {}
    for feature in (False, True):
        for test in (False, True):
            group = [s for s in states if s["feature"] == feature and s["test"] == test]
            if not group:
                continue
            us = [render(s) for s in group]
            res, stats = engine.execute(us, feature=feature, mode="run", cfg_test=test)
            report.phases.append(dict(feature=feature, cfg_test=test, states=len(group), **stats))
            results.update(res)
            for s, u in zip(group, us):
                units[s["key"]] = u
    reqs, keys = [], []
    for s in states:
        recs = [r for r in results[s["key"]].records if "output_tt" in r]
        if recs:
            reqs.append(dict(op="file", tt=recs[0]["output_tt"]))
            keys.append(s["key"])
    views = dict(zip(keys, engine.tokview(reqs)))
    for s in states:
        res = results[s["key"]]
        m = model(s)
        problems = []
        obs = {}
        recs = res.records
        first = recs[0] if recs else None
        if first is None:
            problems.append(("recorder", "no record"))
        elif "panic" in first:
            problems.append(("macro-panic", first["panic"]))
        else:
            rejected = "compile_error" in engine.tt_flat_idents(first["output_tt"][:8])
            obs["rejected"] = rejected
            if rejected != m["rejected"]:
                problems.append(("rejected" if rejected else "not-rejected", first.get("output", "")[:300]))
            elif not rejected:
                v = views.get(s["key"])
                t = find_trait(v) if v and "error" not in v else None
                if t is None:
                    problems.append(("no-trait-in-output", str(v)[:300]))
                else:
                    um, ma = classify_attrs(t)
                    obs["unimock"], obs["mockall"] = um, ma
                    if um != m["unimock"]:
                        problems.append(("unimock-attr:%s-not-%s" % (um, m["unimock"]), "attributes on the emitted trait: %s" % [a["tokens"] for a in t["attrs"]]))
                    if ma != m["mockall"]:
                        problems.append(("mockall-attr:%s-not-%s" % (ma, m["mockall"]), "attributes on the emitted trait: %s" % [a["tokens"] for a in t["attrs"]]))
                # behaviour
                if m["compiles"]:
                    if res.errors:
                        problems.append((res.compile_sig(s["key"]),
                                         "\n".join(res.brief_errors()[:5])))
                    elif res.crashed or "__panic" in res.out:
                        problems.append(("client-crash", str(res.crashed or res.out.get("__panic"))))
                    else:
                        obs["unimock_impl"] = res.first("unimock_impl") == "true"
                        obs["mock_struct"] = res.first("mock_struct") == "true"
                        obs["unimock_api"] = res.first("unimock_api") == "true"
                        if not s["api"]:
                            obs.pop("unimock_api")   # without mock_api there is no named API to look for
                        elif obs["unimock_api"] != m["unimock_impl"]:
                            problems.append(("unimock-api-%s" % ("present" if obs["unimock_api"] else "absent"),
                                             "the unimock mock API `TrMock` exists: %s in a %s build, model says %s" % (obs["unimock_api"], "test" if s["test"] else "non-test", m["unimock_impl"])))
                        # fn/mod traits without mock support have a blanket impl that covers Unimock too: only
                        # for entraited traits (always Impl<T>-only) is `Unimock: Tr` equivalent to "mock impl exists"
                        if s["item"] != "trait" and not (s["item"] == "fnconc"):
                            obs.pop("unimock_impl")
                        elif s["item"] == "fnconc" and obs["unimock_impl"] != m["unimock_impl"]:
                            # a concrete-deps trait is implemented for Cfg and Impl<T: Tr> only, so `Unimock: Tr` <=> a mock impl exists
                            problems.append(("unimock-impl-%s" % ("present" if obs["unimock_impl"] else "absent"),
                                             "`Unimock: Tr` is %s in a %s build, model says %s" % (obs["unimock_impl"], "test" if s["test"] else "non-test", m["unimock_impl"])))
                        elif obs["unimock_impl"] != m["unimock_impl"]:
                            problems.append(("unimock-impl-%s" % ("present" if obs["unimock_impl"] else "absent"),
                                             "`Unimock: Tr` is %s in a %s build, model says %s" % (obs["unimock_impl"], "test" if s["test"] else "non-test", m["unimock_impl"])))
                        if obs["mock_struct"] != m["mock_struct"]:
                            problems.append(("mockall-struct-%s" % ("present" if obs["mock_struct"] else "absent"),
                                             "`MockTr` exists: %s in a %s build, model says %s" % (obs["mock_struct"], "test" if s["test"] else "non-test", m["mock_struct"])))
                else:
                    obs["compiles"] = not res.errors
                    if not res.errors:
                        problems.append(("unexpectedly-compiles", "model: unimock derivation active without the crate feature cannot resolve ::entrait::__unimock"))
        u = units[s["key"]]
        report.observe(s["key"], m, obs if not problems else dict(obs, problems=[p[0] for p in problems]), nontrivial=True,
                       sample=dict(invocation=attr_text(s) + " on " + s["item"], feature=s["feature"], cfg_test=s["test"],
                                   output=(first or {}).get("output", "")[:500]), evals=4)
        for sig, detail in problems:
            tags = {"item:" + s["item"], "variant:" + s["variant"], "feature:" + ("on" if s["feature"] else "off"),
                    "unimock:" + s["unimock"], "mockall:" + s["mockall"], "export:" + s["export"],
                    "api" if s["api"] else "noapi", "cfg:test" if s["test"] else "cfg:notest", "vis:" + s.get("vis", "pub")}
            report.violation(s["key"], tags, sig, detail, state=s, source=engine.standalone_source(u),
                             meta=dict(mode="run", feature=s["feature"], cfg_test=s["test"]))


def run(report, tier):
    states, transitions, bound = enumerate_states(tier)
    report.space(len(states), transitions, bound,
                 "full option/feature/variant/item/cfg lattice (3024 points), no pruning; every point is non-trivial")
    report.assumptions += ["unimock 0.6.8 / mockall 0.12.1 derive macros as shipped"]
    evaluate(states, report, tier)
