"""C14 - static delegation is zero-cost: no boxing, no dynamic dispatch, no allocation.

State  = (bottom-level input mode {fn, mod, entraited trait, trait + static impl block}, sync/async, call-chain depth, arity).
         Level i of the chain allocates exactly i boxes in its own body, so the whole chain allocates 1+2+..+d times.
Model  = allocations(call through the generated trait) == allocations(direct call) == d(d+1)/2, and the result is the same;
         the generated part of every expansion contains no `dyn`, `Box`, `Pin` or `async_trait`.
Impl   = counting global allocator around both calls in the compiled client (allocation-free executor for async).
"""
import itertools

from .. import engine, common

ID = "C14"
MODES = ["fn", "mod", "trait_self", "static_target"]


def enumerate_states(tier):
    depths = range(1, 6) if tier == "thorough" else range(1, 4)
    states = []
    for mode, asy, d, ar, lt in itertools.product(MODES, (False, True), depths, (0, 1, 2), (False, True, "ab", "abw", "gen", "prov", "val", "mki", "ndi", "mut", "bys", "provrec")):
        if lt == "ndi" and (d != 1 or mode not in ("fn", "mod") or asy or (ar == 2 and tier != "thorough")):
            continue    # no_deps + return-position `impl Trait`
        if lt == "abw" and ar == 2 and tier != "thorough":
            continue    # like "ab", the outlives relation written as a where clause
        if lt == "mut" and (ar == 2 and tier != "thorough"):
            continue    # a `&mut` parameter in every signature of the chain
        if lt == "bys" and (d != 1 or mode != "trait_self" or (ar == 2 and tier != "thorough")):
            continue    # `delegate_by = Self` written explicitly: still static dispatch
        if lt == "provrec" and (d != 1 or mode != "trait_self" or not asy or ar != 0):
            continue    # a provided async method whose body awaits another async method of the same trait
        if lt == "val" and (d != 1 or mode != "trait_self"):
            continue    # a method taking `self` by value, on an entraited trait
        if lt == "mki" and (d != 1 or mode not in ("fn", "mod") or asy):
            continue    # mockall requested + return-position `impl Trait` (mockall's own mock boxes it; the real trait must not)
        if lt in ("val", "mki") and ar == 2 and tier != "thorough":
            continue
        if lt == "gen" and (d != 1 or mode != "trait_self"):
            continue    # a generic method: on an entraited trait only (type parameters of fns / impl-block fns are lifted to the trait)
        if lt == "prov" and (d != 1 or mode != "trait_self"):
            continue    # a provided (default-bodied) method of an entraited trait
        if lt in ("ab", "gen", "prov") and ar == 2 and tier != "thorough":
            continue
        states.append(dict(key="z_%s_%s_d%d_a%d%s" % (mode, "a" if asy else "s", d, ar, {False: "", True: "_lt", "ab": "_ltab", "gen": "_gen", "prov": "_prov", "val": "_val", "mki": "_mki", "mut": "_mut", "bys": "_bys", "provrec": "_provrec", "abw": "_ltabw", "ndi": "_ndi"}[lt]), mode=mode, asy=asy, depth=d, arity=ar, lt=lt))
    return states, len(states), dict(depths=list(depths), arities=[0, 1, 2], modes=MODES)


def render(s):
    key, mode, asy, d, ar = s["key"], s["mode"], s["asy"], s["depth"], s["arity"]
    lt = s.get("lt")
    # optionally a named lifetime parameter and a borrowed argument in every signature of the chain
    params = "".join(", a%d: u64" % i for i in range(ar))
    args = "".join(", %d" % (3 + i) for i in range(ar))
    fwdl = ["a%d" % i for i in range(ar)]
    asum = "".join(" + a%d" % i for i in range(ar))
    G = ""
    if lt is True:
        params, args, fwdl, asum, G = params + ", s: &'a str", args + ', "xy"', fwdl + ["s"], asum + " + s.len() as u64", "<'a>"
    elif lt == "ab":
        # two named lifetimes related by an outlives bound
        params, args, fwdl, asum, G = params + ", s: &'a str, t: &'b str", args + ', "xy", ""', fwdl + ["s", "t"], \
            asum + " + s.len() as u64 + t.len() as u64", "<'a, 'b: 'a>"
    elif lt == "abw":
        params, args, fwdl, asum, G = params + ", s: &'a str, t: &'b str", args + ', "xy", ""', fwdl + ["s", "t"], \
            asum + " + s.len() as u64 + t.len() as u64", "<'a, 'b>"
    elif lt == "mut":
        params, args, fwdl, asum, G = params + ", m: &mut u64", args + ", &mut 2u64", fwdl + ["m"], asum + " + *m", ""
    elif lt == "gen":
        params, args, fwdl, asum, G = params + ", v: V", args + ", 2u64", fwdl + ["v"], asum + " + v.into()", "<V: ::core::marker::Send + ::core::convert::Into<u64>>"
    fwd = ", ".join(fwdl)
    A = "async " if asy else ""
    AW = ".await" if asy else ""
    L = ["mod %s {" % key, "    use super::rt;"]

    def boxes(i):
        return " ".join("let b%d = ::std::boxed::Box::new(%du64);" % (j, i) for j in range(i)) + " let own = 0u64%s;" % "".join(" + *b%d" % j for j in range(i))

    # upper levels are always entraited fns depending on the next level's trait
    for i in range(1, d):
        L.append("    #[::entrait::entrait(pub L%d)]" % i)
        L.append("    pub %sfn l%d%s(deps: &impl L%d%s) -> u64 { %s own%s + deps.l%d(%s)%s }" % (A, i, G, i + 1, params, boxes(i), asum, i + 1, fwd, AW))
    # bottom level in the mode under test
    i = d
    any_ = "&impl ::core::any::Any"
    RT = "impl ::core::convert::Into<u64>" if lt in ("mki", "ndi") else "u64"
    MK = ", mockall" if lt == "mki" else ", no_deps" if lt == "ndi" else ""

    if mode == "fn":
        L.append("    #[::entrait::entrait(pub L%d%s)]" % (i, MK))
        L.append("    pub %sfn l%d%s(deps: %s%s) -> %s { %s own%s }" % (A, i, G, any_, params, RT, boxes(i), asum))
        app = "::entrait::Impl::new(())"
        direct = "l1(&app%s)" % args if d > 1 or True else ""
    elif mode == "mod":
        L.append("    #[::entrait::entrait(pub L%d%s)]" % (i, MK))
        L.append("    pub mod bottom { pub %sfn l%d%s(deps: %s%s) -> %s { %s own%s } pub fn unrelated(deps: %s) {} }" % (A, i, G, any_, params, RT, boxes(i), asum, any_))
        app = "::entrait::Impl::new(())"
        direct = ("l1(&app%s)" % args) if d > 1 else ("bottom::l1(&app%s)" % args)
    elif mode == "trait_self" and lt == "provrec":
        L.append("    #[::entrait::entrait]")
        L.append("    pub trait L1: ::core::marker::Sync { async fn helper(&self) -> u64; async fn l1(&self) -> u64 { %s own + self.helper().await } }" % boxes(1))
        L.append("    pub struct App;")
        L.append("    impl L1 for App { async fn helper(&self) -> u64 { 0 } }")
        app = "::entrait::Impl::new(App)"
        direct = "<App as L1>::l1(&*app)"
    elif mode == "trait_self" and lt == "val":
        L.append("    #[::entrait::entrait]")
        L.append("    pub trait L%d { %sfn l%d(self%s) -> u64; }" % (i, A, i, params))
        L.append("    pub struct App;")
        L.append("    impl L%d for App { %sfn l%d(self%s) -> u64 { %s own%s } }" % (i, A, i, params, boxes(i), asum))
        app = "()"
        direct = "<App as L1>::l1(App%s)" % args
    elif mode == "trait_self" and lt == "prov":
        # the method is provided by the trait; its body mentions an identifier spelled like the method
        L.append("    #[::entrait::entrait]")
        L.append("    pub trait L%d: ::core::marker::Sync { fn stats(&self) -> Stats; %sfn l%d(&self%s) -> u64 { %s let l%d = self.stats().l%d; own%s + l%d } }"
                 % (i, A, i, params, boxes(i), i, i, asum, i))
        L.append("    pub struct Stats { pub l1: u64 }")
        L.append("    pub struct App;")
        L.append("    impl L%d for App { fn stats(&self) -> Stats { Stats { l1: 0 } } }" % i)
        app = "::entrait::Impl::new(App)"
        direct = "<App as L1>::l1(&*app%s)" % args
    elif mode == "trait_self":
        L.append("    #[::entrait::entrait%s]" % ("(delegate_by = Self)" if lt == "bys" else ""))
        L.append("    pub trait L%d { %sfn l%d%s(&self%s) -> u64; }" % (i, A, i, G, params))
        L.append("    pub struct App;")
        L.append("    impl L%d for App { %sfn l%d%s(&self%s) -> u64 { %s own%s } }" % (i, A, i, G, params, boxes(i), asum))
        app = "::entrait::Impl::new(App)"
        direct = ("l1(&app%s)" % args) if d > 1 else ("<App as L1>::l1(&*app%s)" % args)
    else:
        L.append("    #[::entrait::entrait(L%dImpl, delegate_by = DelegateL%d)]" % (i, i))
        L.append("    pub trait L%d { %sfn l%d%s(&self%s) -> u64; }" % (i, A, i, G, params))
        L.append("    pub struct X;")
        L.append("    #[::entrait::entrait]")
        L.append("    impl L%dImpl for X { pub %sfn l%d%s(deps: %s%s) -> u64 { %s own%s } }" % (i, A, i, G, any_, params, boxes(i), asum))
        L.append("    pub struct App;")
        L.append("    impl DelegateL%d<Self> for App { type Target = X; }" % i)
        app = "::entrait::Impl::new(App)"
        direct = ("l1(&app%s)" % args) if d > 1 else ("X::l1(&app%s)" % args)
    if lt == "ndi":
        L = [l.replace("(deps: &impl ::core::any::Any, ", "(").replace("(deps: &impl ::core::any::Any)", "()") if " fn l1" in l else l for l in L]
        direct = direct.replace("l1(&app, ", "l1(").replace("l1(&app)", "l1()")
    if lt == "abw":
        L = [l.replace("-> u64 {", "-> u64 where 'b: 'a {", 1).replace("-> u64; }", "-> u64 where 'b: 'a; }") if (" fn l" in l or "fn l" in l) and "<'a, 'b>" in l else l for l in L]
    via = "L1::l1(&app%s)" % args
    if lt == "val":
        via = "L1::l1(::entrait::Impl::new(App)%s)" % args
    if lt in ("mki", "ndi"):
        direct, via = "::core::convert::Into::<u64>::into(%s)" % direct, "::core::convert::Into::<u64>::into(%s)" % via

    def wrap(e):
        return "rt::block_on(%s)" % e if asy else e
    L.append("    pub fn client() {")
    L.append("        let app = %s;" % app)
    L.append("        let n0 = rt::allocs(); let r1 = %s; let n1 = rt::allocs(); let r2 = %s; let n2 = rt::allocs();" % (wrap(direct), wrap(via)))
    L.append('        rt::out("allocs", format!("{}|{}", n1 - n0, n2 - n1)); rt::out("res", format!("{}|{}", r1, r2));')
    L += ["    }", "}"]
    return engine.Unit(key, "\n".join(L), 'rt::run("%s", %s::client);' % (key, key), s)


def model(s):
    d, ar = s["depth"], s["arity"]
    total = d * (d + 1) // 2
    extra = {False: 0, None: 0, True: 2, "ab": 2, "gen": 2, "prov": 0, "val": 0, "mki": 0, "mut": 2, "bys": 0, "provrec": 0, "abw": 2, "ndi": 0}[s.get("lt")]
    res = sum(i * i for i in range(1, d + 1)) + d * (sum(3 + i for i in range(ar)) + extra)
    return dict(allocs="%d|%d" % (total, total), res="%d|%d" % (res, res))


FORBIDDEN = {"dyn", "Box", "Pin", "async_trait", "Arc", "Rc", "Vec", "alloc"}


def evaluate(states, report, tier):
    units = [render(s) for s in states]
    results, stats = engine.execute(units, feature=False, mode="run")
    report.phases.append(dict(stats))
    for s, u in zip(states, units):
        res = results[s["key"]]
        m = model(s)
        problems, obs = [], {}
        if any("panic" in r for r in res.records):
            problems.append(("macro-panic", str([r.get("panic") for r in res.records])))
        # structural: nothing heap- or dyn-related in what the macro generated
        for r in res.records:
            if "output_tt" not in r:
                continue
            inp = set(engine.tt_flat_idents(r["input_tt"]))
            gen_idents = set(engine.tt_flat_idents(r["output_tt"])) - inp
            bad = sorted(gen_idents & FORBIDDEN)
            if bad:
                problems.append(("generated-code-mentions:" + ",".join(bad), r["output"][:600]))
        if res.errors:
            problems.append((res.compile_sig(s["key"]), "\n".join(res.brief_errors()[:5])))
        elif res.crashed or "__panic" in res.out:
            problems.append(("client-crash", str(res.crashed or res.out.get("__panic"))))
        else:
            obs["allocs"], obs["res"] = res.first("allocs"), res.first("res")
            if obs["res"] != m["res"]:
                problems.append(("result", "%r, model says %r" % (obs["res"], m["res"])))
            if obs["allocs"] != m["allocs"]:
                d_, t_ = (obs["allocs"] or "|").split("|")
                sig = "extra-allocations-through-trait" if d_ == m["allocs"].split("|")[0] else "allocation-count"
                problems.append((sig, "direct call allocated %s times, call through the trait %s times, the bodies allocate %s times"
                                 % (d_, t_, m["allocs"].split("|")[0])))
        report.observe(s["key"], m, obs if not problems else dict(obs, problems=sorted(set(p[0] for p in problems))), nontrivial=True,
                       sample=dict(source=u.src), evals=3)
        done = set()
        for sig, detail in problems:
            if sig in done:
                continue
            done.add(sig)
            tags = {"mode:" + s["mode"], "async" if s["asy"] else "sync", "depth:%d" % s["depth"], "arity:%d" % s["arity"], {False: "elided", None: "elided", True: "named-lifetime", "ab": "outlives-bound", "gen": "generic-method", "prov": "provided-method", "val": "by-value-self", "mki": "mockall-impl-trait-return", "mut": "mut-ref-parameter", "bys": "delegate-by-self", "provrec": "provided-awaits-sibling", "abw": "outlives-where-clause", "ndi": "no-deps-impl-trait-return"}[s.get("lt")]}
            report.violation(s["key"], tags, sig, detail, state=s, source=engine.standalone_source(u), meta=dict(mode="run"))


def run(report, tier):
    states, transitions, bound = enumerate_states(tier)
    report.space(len(states), transitions, bound,
                 "bottom-level mode %s x sync/async x chain depth x arity; level i allocates i boxes so depths are distinguishable; "
                 "every state non-trivial" % MODES)
    report.assumptions += ["debug build (opt-level 0): Box::new allocates exactly once, nothing is elided"]
    evaluate(states, report, tier)
