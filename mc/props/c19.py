"""C19 - generated code is self-contained: no imports, no std, no name capture.

State  = (program: input mode x delegation kind, hostile scope: one local decoy item / all of them /
          the generated-or-entraited trait named like a prelude item).
Model  = differential: a program means the same in every scope (same observations as in the empty scope,
          and equal to the values the model computes); it compiles in every scope and in a #![no_std] crate.
Impl   = compiled + executed generated crates; plus a structural scan of the generated part of every
          recorded expansion: each path must be rooted at ::entrait / ::core / (::mockall), at a generic or
          receiver the macro itself introduced, or be copied from the input tokens.
"""
import os
import subprocess

from .. import engine, common

ID = "C19"

ANY = "&impl ::core::any::Any"
# program -> (items template, client statements, expected observation)
PROGRAMS = {
    "fn": ("#[::entrait::entrait(pub {TR})]\n    pub fn f1(deps: %s, target: i64, this: i64) -> i64 {{ target * 10 + this }}" % ANY,
           ['let app = ::entrait::Impl::new(());', 'rt::out("r", app.f1(1, 2));'], "12"),
    "fn_async": ("#[::entrait::entrait(pub {TR})]\n    pub async fn f2(deps: %s, target: &i64, result: i64) -> i64 {{ *target * 10 + result }}" % ANY,
                 ['let app = ::entrait::Impl::new(());', 'rt::out("r", rt::block_on(app.f2(&1, 2)));'], "12"),
    "fn_async_ms": ("#[::entrait::entrait(pub {TR}, ?Send)]\n    pub async fn f2(deps: %s, target: &i64, result: i64) -> i64 {{ *target * 10 + result }}" % ANY,
                    ['let app = ::entrait::Impl::new(());', 'rt::out("r", rt::block_on(app.f2(&1, 2)));'], "12"),
    "fn_byval": ("#[::entrait::entrait(pub {TR})]\n    pub fn f3<D: ::core::any::Any>(deps: D, inner: i64) -> i64 {{ inner + 1 }}",
                 ['rt::out("r", ::entrait::Impl::new(()).f3(1));'], "2"),
    "fn_byval_async": ("#[::entrait::entrait(pub {TR})]\n    pub async fn f3<D: ::core::any::Any + ::core::marker::Send>(deps: D, inner: i64) -> i64 {{ inner + 1 }}",
                       ['rt::out("r", rt::block_on(::entrait::Impl::new(()).f3(1)));'], "2"),
    "fn_concrete": ("pub struct Cfg(pub i64);\n    #[::entrait::entrait(pub {TR})]\n    pub fn f4(c: &Cfg, target: i64) -> i64 {{ c.0 + target }}",
                    ['rt::out("r", ::entrait::Impl::new(Cfg(5)).f4(1));'], "6"),
    "fn_concrete_async": ("pub struct Cfg(pub i64);\n    #[::entrait::entrait(pub {TR})]\n    pub async fn f4(c: &Cfg, target: i64) -> i64 {{ c.0 + target }}",
                          ['rt::out("r", rt::block_on(::entrait::Impl::new(Cfg(5)).f4(1)));'], "6"),
    "fn_nodeps": ("#[::entrait::entrait(pub {TR}, no_deps)]\n    pub fn f5(fut: i64, tmp: i64) -> i64 {{ fut - tmp }}",
                  ['rt::out("r", ::entrait::Impl::new(()).f5(5, 2));'], "3"),
    "mod": ("#[::entrait::entrait(pub {TR})]\n    pub mod m {{\n        pub fn g1(deps: %s, target: i64) -> i64 {{ target }}\n"
            "        pub async fn g2<D: ::core::marker::Sync>(deps: &D, this: i64) -> i64 {{ this + 1 }}\n    }}" % ANY,
            ['let app = ::entrait::Impl::new(());', 'rt::out("r", format!("{}|{}", app.g1(1), rt::block_on(app.g2(1))));'], "1|2"),
    "trait_self": ("#[::entrait::entrait]\n    pub trait {TR} {{ fn h1(&self, target: i64, this: i64) -> i64; async fn h2(&self, result: i64) -> i64; }}\n"
                   "    pub struct App;\n    impl {TR} for App {{ fn h1(&self, a: i64, b: i64) -> i64 {{ a * 10 + b }} async fn h2(&self, r: i64) -> i64 {{ r + 1 }} }}",
                   ['let app = ::entrait::Impl::new(App);', 'rt::out("r", format!("{}|{}", {TR}::h1(&app, 1, 2), rt::block_on({TR}::h2(&app, 1))));'], "12|2"),
    "trait_provided": ("#[::entrait::entrait]\n    pub trait {TR}: ::core::marker::Sync {{ fn h0(&self) -> i64; fn h1(&self, target: i64) -> i64 {{ self.h0() * 10 + target }} async fn h2(&self, this: i64) -> i64 {{ self.h0() + this }} }}\n"
                       "    pub struct App;\n    impl {TR} for App {{ fn h0(&self) -> i64 {{ 1 }} }}",
                       ['let app = ::entrait::Impl::new(App);', 'rt::out("r", format!("{}|{}", {TR}::h1(&app, 2), rt::block_on({TR}::h2(&app, 1))));'], "12|2"),
    # methods named like the helpers the delegation goes through, and a supertrait with a method of the same name
    "trait_helper_names": ("#[::entrait::entrait]\n    pub trait {TR} {{ fn as_ref(&self, target: i64) -> i64; fn borrow(&self) -> i64; fn into_inner(&self, this: i64) -> i64; }}\n"
                           "    pub struct App;\n    impl {TR} for App {{ fn as_ref(&self, a: i64) -> i64 {{ a * 10 }} fn borrow(&self) -> i64 {{ 2 }} fn into_inner(&self, b: i64) -> i64 {{ b }} }}",
                           ['let app = ::entrait::Impl::new(App);', 'rt::out("r", format!("{}|{}|{}", {TR}::as_ref(&app, 1), {TR}::borrow(&app), {TR}::into_inner(&app, 3)));'], "10|2|3"),
    "trait_helper_names_ref": ("#[::entrait::entrait(delegate_by = ref)]\n    pub trait {TR} {{ fn as_ref(&self, target: i64) -> i64; fn borrow(&self) -> i64; }}\n"
                               "    pub struct Inner;\n    impl {TR} for Inner {{ fn as_ref(&self, a: i64) -> i64 {{ a * 10 }} fn borrow(&self) -> i64 {{ 2 }} }}\n"
                               "    pub struct App(pub Inner);\n    impl ::core::convert::AsRef<dyn {TR}> for App {{ fn as_ref(&self) -> &(dyn {TR} + 'static) {{ &self.0 }} }}",
                               ['let app = ::entrait::Impl::new(App(Inner));', 'rt::out("r", format!("{}|{}", {TR}::as_ref(&app, 1), {TR}::borrow(&app)));'], "10|2"),
    "trait_super_same_name": ("pub trait Base {{ fn name(&self) -> i64; }}\n    #[::entrait::entrait]\n    pub trait {TR}: Base {{ fn name(&self) -> i64; }}\n"
                              "    pub struct App;\n    impl Base for App {{ fn name(&self) -> i64 {{ 1 }} }}\n    impl {TR} for App {{ fn name(&self) -> i64 {{ 2 }} }}\n"
                              "    impl<T: Base> Base for ::entrait::Impl<T> {{ fn name(&self) -> i64 {{ 3 }} }}",
                              ['let app = ::entrait::Impl::new(App);', 'rt::out("r", format!("{}|{}", <::entrait::Impl<App> as {TR}>::name(&app), <::entrait::Impl<App> as Base>::name(&app)));'], "2|3"),
    "trait_self_ms": ("#[::entrait::entrait(?Send)]\n    pub trait {TR} {{ async fn h2(&self, result: i64) -> i64; }}\n"
                      "    pub struct App;\n    impl {TR} for App {{ async fn h2(&self, r: i64) -> i64 {{ r + 1 }} }}",
                      ['let app = ::entrait::Impl::new(App);', 'rt::out("r", rt::block_on({TR}::h2(&app, 1)));'], "2"),
    "static_target_ms": ("#[::entrait::entrait({TR}Impl, delegate_by = Delegate{TR}, ?Send)]\n    pub trait {TR} {{ async fn k2(&self, this: i64) -> i64; }}\n"
                         "    pub struct X;\n    #[::entrait::entrait]\n    impl {TR}Impl for X {{\n        pub async fn k2(deps: %s, this: i64) -> i64 {{ this * 3 }}\n    }}\n"
                         "    pub struct App;\n    impl Delegate{TR}<Self> for App {{ type Target = X; }}" % ANY,
                         ['let app = ::entrait::Impl::new(App);', 'rt::out("r", rt::block_on({TR}::k2(&app, 2)));'], "6"),
    "trait_ref": ("#[::entrait::entrait(delegate_by = ref)]\n    pub trait {TR} {{ fn h(&self, target: i64, delegate: i64) -> i64; }}\n"
                  "    pub struct Inner;\n    impl {TR} for Inner {{ fn h(&self, a: i64, b: i64) -> i64 {{ a * 10 + b }} }}\n"
                  "    pub struct App(pub Inner);\n    impl ::core::convert::AsRef<dyn {TR}> for App {{ fn as_ref(&self) -> &(dyn {TR} + 'static) {{ &self.0 }} }}",
                  ['let app = ::entrait::Impl::new(App(Inner));', 'rt::out("r", {TR}::h(&app, 1, 2));'], "12"),
    "trait_borrow": ("#[::entrait::entrait(delegate_by = Borrow)]\n    pub trait {TR} {{ fn h(&self, target: i64, inner: i64) -> i64; }}\n"
                     "    pub struct Inner;\n    impl {TR} for Inner {{ fn h(&self, a: i64, b: i64) -> i64 {{ a * 10 + b }} }}\n"
                     "    pub struct App(pub Inner);\n    impl ::core::borrow::Borrow<dyn {TR}> for App {{ fn borrow(&self) -> &(dyn {TR} + 'static) {{ &self.0 }} }}",
                     ['let app = ::entrait::Impl::new(App(Inner));', 'rt::out("r", {TR}::h(&app, 1, 2));'], "12"),
    "static_target": ("#[::entrait::entrait({TR}Impl, delegate_by = Delegate{TR})]\n    pub trait {TR} {{ fn k(&self, target: i64) -> i64; async fn k2(&self, this: i64) -> i64; }}\n"
                      "    pub struct X;\n    #[::entrait::entrait]\n    impl {TR}Impl for X {{\n        pub fn k(deps: %s, target: i64) -> i64 {{ target * 2 }}\n"
                      "        pub async fn k2(deps: %s, this: i64) -> i64 {{ this * 3 }}\n    }}\n"
                      "    pub struct App;\n    impl Delegate{TR}<Self> for App {{ type Target = X; }}" % (ANY, ANY),
                      ['let app = ::entrait::Impl::new(App);', 'rt::out("r", format!("{}|{}", {TR}::k(&app, 2), rt::block_on({TR}::k2(&app, 2))));'], "4|6"),
    "dyn_target": ("#[::entrait::entrait({TR}Impl, delegate_by = ref)]\n    pub trait {TR} {{ fn k(&self, target: i64) -> i64; }}\n"
                   "    pub struct X;\n    #[::entrait::entrait(ref)]\n    impl {TR}Impl for X {{\n        pub fn k(deps: %s, target: i64) -> i64 {{ target * 2 }}\n    }}\n"
                   "    pub struct App(pub X);\n    impl ::core::convert::AsRef<dyn {TR}Impl<Self>> for App {{ fn as_ref(&self) -> &(dyn {TR}Impl<Self> + 'static) {{ &self.0 }} }}" % ANY,
                   ['let app = ::entrait::Impl::new(App(X));', 'rt::out("r", {TR}::k(&app, 2));'], "4"),
    "dyn_target_borrow": ("#[::entrait::entrait({TR}Impl, delegate_by = Borrow)]\n    pub trait {TR} {{ fn k(&self, target: i64) -> i64; }}\n"
                          "    pub struct X;\n    #[::entrait::entrait(ref)]\n    impl {TR}Impl for X {{\n        pub fn k(deps: %s, target: i64) -> i64 {{ target * 2 }}\n    }}\n"
                          "    pub struct App(pub X);\n    impl ::core::borrow::Borrow<dyn {TR}Impl<Self>> for App {{ fn borrow(&self) -> &(dyn {TR}Impl<Self> + 'static) {{ &self.0 }} }}" % ANY,
                          ['let app = ::entrait::Impl::new(App(X));', 'rt::out("r", {TR}::k(&app, 2));'], "4"),
    "dyn_target_tn": ("#[::entrait::entrait({TR}, delegate_by = ref)]\n    pub trait Usr {{ fn k(&self, target: i64) -> i64; }}\n"
                      "    pub struct X;\n    #[::entrait::entrait(ref)]\n    impl {TR} for X {{\n        pub fn k(deps: %s, target: i64) -> i64 {{ target * 2 }}\n    }}\n"
                      "    pub struct App(pub X);\n    impl ::core::convert::AsRef<dyn {TR}<Self>> for App {{ fn as_ref(&self) -> &(dyn {TR}<Self> + 'static) {{ &self.0 }} }}" % ANY,
                      ['let app = ::entrait::Impl::new(App(X));', 'rt::out("r", Usr::k(&app, 2));'], "4"),
    "static_target_tn": ("#[::entrait::entrait({TR}, delegate_by = DelegateUsr)]\n    pub trait Usr {{ fn k(&self, target: i64) -> i64; }}\n"
                         "    pub struct X;\n    #[::entrait::entrait]\n    impl {TR} for X {{\n        pub fn k(deps: %s, target: i64) -> i64 {{ target * 2 }}\n    }}\n"
                         "    pub struct App;\n    impl DelegateUsr<Self> for App {{ type Target = X; }}" % ANY,
                         ['let app = ::entrait::Impl::new(App);', 'rt::out("r", Usr::k(&app, 2));'], "4"),
    "static_target_byval": ("#[::entrait::entrait({TR}Impl, delegate_by = Delegate{TR})]\n    pub trait {TR} {{ fn k(self, target: i64) -> i64; }}\n"
                            "    pub struct X;\n    impl {TR}Impl<App> for X {{ fn k(__impl: ::entrait::Impl<App>, target: i64) -> i64 {{ target * 2 }} }}\n"
                            "    pub struct App;\n    impl Delegate{TR}<Self> for App {{ type Target = X; }}",
                            ['rt::out("r", {TR}::k(::entrait::Impl::new(App), 2));'], "4"),
    "dyn_target_async": ("#[::entrait::entrait({TR}Impl, delegate_by = ref)]\n    #[::async_trait::async_trait]\n    pub trait {TR} {{ async fn k(&self, target: i64) -> i64; }}\n"
                         "    pub struct X;\n    #[::entrait::entrait(ref)]\n    #[::async_trait::async_trait]\n    impl {TR}Impl for X {{\n        pub async fn k(deps: %s, target: i64) -> i64 {{ target * 2 }}\n    }}\n"
                         "    pub struct App(pub X);\n    impl ::core::convert::AsRef<dyn {TR}Impl<Self> + ::core::marker::Sync> for App {{ fn as_ref(&self) -> &(dyn {TR}Impl<Self> + ::core::marker::Sync + 'static) {{ &self.0 }} }}" % ANY,
                         ['let app = ::entrait::Impl::new(App(X));', 'rt::out("r", rt::block_on({TR}::k(&app, 2)));'], "4"),
    "trait_ref_async": ("#[::entrait::entrait(delegate_by = ref)]\n    #[::async_trait::async_trait]\n    pub trait {TR}: ::core::marker::Sync + 'static {{ async fn h(&self, target: i64) -> i64; }}\n"
                        "    pub struct Inner;\n    #[::async_trait::async_trait]\n    impl {TR} for Inner {{ async fn h(&self, a: i64) -> i64 {{ a + 1 }} }}\n"
                        "    pub struct App(pub Inner);\n    impl ::core::convert::AsRef<dyn {TR}> for App {{ fn as_ref(&self) -> &(dyn {TR} + 'static) {{ &self.0 }} }}",
                        ['let app = ::entrait::Impl::new(App(Inner));', 'rt::out("r", rt::block_on({TR}::h(&app, 1)));'], "2"),
}

# programs with mock derivations (compiled with the unimock crate feature and --cfg test): the derivations are part of the expansion
MOCK_PROGRAMS = {
    "fn_mock": ("#[::entrait::entrait(pub {TR}, mock_api = {TR}Mock)]\n    pub fn f1(deps: %s, target: i64, this: i64) -> i64 {{ target * 10 + this }}" % ANY,
                ['let app = ::entrait::Impl::new(());', 'let m = ::unimock::Unimock::new_partial(());', 'rt::out("r", format!("{}|{}", app.f1(1, 2), m.f1(1, 2)));'], "12|12"),
    "fn_mock_async": ("#[::entrait::entrait(pub {TR}, mock_api = {TR}Mock)]\n    pub async fn f2(deps: %s, target: i64, result: i64) -> i64 {{ target * 10 + result }}" % ANY,
                      ['let app = ::entrait::Impl::new(());', 'let m = ::unimock::Unimock::new_partial(());',
                       'rt::out("r", format!("{}|{}", rt::block_on(app.f2(1, 2)), rt::block_on(m.f2(1, 2))));'], "12|12"),
    "mod_mock": ("#[::entrait::entrait(pub {TR}, mock_api = {TR}Mock)]\n    pub mod m {{\n        pub fn g1(deps: %s, target: i64) -> i64 {{ target }}\n    }}" % ANY,
                 ['let app = ::entrait::Impl::new(());', 'let m = ::unimock::Unimock::new_partial(());', 'rt::out("r", format!("{}|{}", app.g1(1), m.g1(1)));'], "1|1"),
    "trait_mock": ("#[::entrait::entrait]\n    pub trait {TR} {{ fn h1(&self, target: i64, this: i64) -> i64; }}\n"
                   "    pub struct App;\n    impl {TR} for App {{ fn h1(&self, a: i64, b: i64) -> i64 {{ a * 10 + b }} }}",
                   ['let app = ::entrait::Impl::new(App);', 'rt::out("r", {TR}::h1(&app, 1, 2));'], "12"),
    "mockall_fn": ("#[::entrait::entrait(pub {TR}, mockall)]\n    pub fn f1(deps: %s, target: i64, this: i64) -> i64 {{ target * 10 + this }}" % ANY,
                   ['let app = ::entrait::Impl::new(());', 'rt::out("r", app.f1(1, 2));'], "12"),
}
PROGRAMS.update(MOCK_PROGRAMS)

DECOYS = {
    "t_Send": "pub trait Send {}", "t_Sync": "pub trait Sync {}", "t_Sized": "pub trait Sized {}", "t_Future": "pub trait Future {}",
    "t_AsRef": "pub trait AsRef<T: ?::core::marker::Sized> {}", "t_Borrow": "pub trait Borrow<T: ?::core::marker::Sized> {}", "t_Unpin": "pub trait Unpin {}",
    "s_Impl": "pub struct Impl<T>(pub T);", "s_Box": "pub struct Box<T>(pub T);", "s_Pin": "pub struct Pin<T>(pub T);",
    "m_core": "pub mod core {}", "m_entrait": "pub mod entrait {}", "m_std": "pub mod std {}", "m_alloc": "pub mod alloc {}",
    "m_future": "pub mod future {}", "m_marker": "pub mod marker {}", "m_convert": "pub mod convert {}", "m_borrow": "pub mod borrow {}",
    # real imports of std traits whose method names the generated code uses (`borrow`, `as_ref`, `deref`, `into_future`, ..):
    # method-call syntax in generated code would be captured by them
    "i_borrow": "#[allow(unused_imports)] use ::core::borrow::{Borrow, BorrowMut};",
    "i_ops": "#[allow(unused_imports)] use ::core::ops::{Deref, DerefMut};",
    "i_future": "#[allow(unused_imports)] use ::core::future::{Future, IntoFuture};",
    "i_misc": "#[allow(unused_imports)] use ::core::any::Any; #[allow(unused_imports)] use ::std::borrow::ToOwned; #[allow(unused_imports)] use ::core::convert::{AsMut, Into};",
    # a local extension trait, implemented for everything, whose methods are named like the helpers the generated code relies on
    "x_blanket": "pub trait Ext { fn as_ref(&self) -> u8 { 0 } fn borrow(&self) -> u8 { 0 } fn into_inner(&self) -> u8 { 0 } fn deref(&self) -> u8 { 0 } fn clone(&self) -> u8 { 0 } } impl<T: ?::core::marker::Sized> Ext for T {}",
    # unit structs / consts in the value namespace turn a macro-introduced `let <name> = ..` into a pattern match
    # (names chosen not to coincide with the programs' own parameter names)
    "v_locals": "pub struct provider; pub struct receiver; pub struct the_future; pub struct output; pub struct ret; pub struct out; pub struct res; pub struct imp; pub struct delegation_target; pub struct arg0; pub struct arg1;",
    "v_consts": "pub const Sync: u8 = 0; pub const Send: u8 = 0; pub fn as_ref() {} pub fn borrow() {} pub fn new() {}",
}
NAMES = ["Send", "Sync", "Sized", "Future", "AsRef", "Impl", "Box", "Unpin"]
ALLOWED_ROOTS = {"entrait", "core", "mockall"}
MACRO_IDENTS = {"Self", "self", "EntraitT", "__impl", "T", "Target"}
BUILTIN_ATTRS = {"cfg_attr", "cfg", "allow", "doc"}


def enumerate_states(tier):
    states = []
    for prog in MOCK_PROGRAMS:
        states.append(dict(key="h_%s_plain" % prog, prog=prog, scope="none", name="Tr", mock=True))
        for st in STAMPS:
            if prog == "trait_mock" and st in ("mr_attr_inside", "mr_item_inside"):
                # the trait is the USER's tokens (one hygiene context), the derive is invoked from entrait's (another): what unimock's
                # own expansion does with that pair is the third-party macro's business (it fails the same way when used directly)
                continue
            states.append(dict(key="h_%s_%s" % (prog, st), prog=prog, scope=st, name="Tr", mock=True))
    for prog in PROGRAMS:
        if "async_trait" in PROGRAMS[prog][0] or prog in MOCK_PROGRAMS:
            continue
        states.append(dict(key="h_%s_plain" % prog, prog=prog, scope="none", name="Tr"))
        for d in DECOYS:
            states.append(dict(key="h_%s_%s" % (prog, d), prog=prog, scope=d, name="Tr"))
        states.append(dict(key="h_%s_all" % prog, prog=prog, scope="all", name="Tr"))
        for st in STAMPS:
            states.append(dict(key="h_%s_%s" % (prog, st), prog=prog, scope=st, name="Tr"))
        for n in NAMES:
            states.append(dict(key="h_%s_named_%s" % (prog, n), prog=prog, scope="none", name=n))
            if tier == "thorough":
                states.append(dict(key="h_%s_named_%s_all" % (prog, n), prog=prog, scope="all_but_" + n, name=n))
    # programs that go through the third-party async_trait macro: its own expansion names `Box` relatively, so local
    # items called Box / Pin (and a trait named Box) are outside what entrait can promise
    for prog in PROGRAMS:
        if "async_trait" not in PROGRAMS[prog][0] or prog in MOCK_PROGRAMS:
            continue
        states.append(dict(key="h_%s_plain" % prog, prog=prog, scope="none", name="Tr"))
        for d in DECOYS:
            if d not in ("s_Box", "s_Pin"):
                states.append(dict(key="h_%s_%s" % (prog, d), prog=prog, scope=d, name="Tr"))
        for st in STAMPS:
            states.append(dict(key="h_%s_%s" % (prog, st), prog=prog, scope=st, name="Tr"))
        for n in NAMES:
            if n != "Box":
                states.append(dict(key="h_%s_named_%s" % (prog, n), prog=prog, scope="none", name=n))
    states.append(dict(key="h_no_std_crate", prog="*", scope="no_std", name="Tr"))
    for cfg_test in (False, True):
        states.append(dict(key="h_only_entrait_dep_%s" % ("test" if cfg_test else "notest"), prog="*", scope="only_dep", name="Tr", cfg_test=cfg_test))
    return states, len(states) - len(PROGRAMS) - 2, dict(programs=list(PROGRAMS), decoys=list(DECOYS), trait_names=NAMES)


STAMP_IDENTS = ["h0", "f1", "f2", "f3", "f4", "f5", "g1", "g2", "h1", "h2", "h", "k", "k2", "m", "deps", "c", "target", "this", "result", "inner", "fut", "tmp", "delegate"]
STAMPS = ["mr_none", "mr_tr", "mr_idents", "mr_both", "mr_attr_inside", "mr_item_inside"]


def stamp_split(items, how):
    """Attribute and item from different hygiene contexts: the entrait attribute written in the macro body and the item passed in
    as tokens (mr_attr_inside), or the other way round."""
    segs = []   # (is_attr, text)
    for line in items.split("\n"):
        is_attr = line.strip().startswith("#[::entrait::entrait")
        if segs and segs[-1][0] == is_attr:
            segs[-1] = (is_attr, segs[-1][1] + "\n" + line)
        else:
            segs.append((is_attr, line))
    pats, body, call = [], [], []
    for i, (is_attr, text) in enumerate(segs):
        if is_attr == (how == "mr_attr_inside"):
            body.append(text)
        else:
            pats.append("{{ $($s%d:tt)* }}" % i)
            body.append("$($s%d)*" % i)
            call.append("{{ %s }}" % text)
    return "macro_rules! stamp {{ (%s) => {{\n    %s\n    }} }}\n    stamp!(%s);" % (" ".join(pats), "\n    ".join(body), " ".join(call))


def stamp(items, how):
    """The program written inside a `macro_rules!` body; `how` says which identifiers arrive as macro arguments (and so carry
    the hygiene context of the call site, while everything else carries that of the macro definition)."""
    import re
    if how in ("mr_attr_inside", "mr_item_inside"):
        return stamp_split(items, how)
    args = []

    def arg(text, var):
        nonlocal items
        if re.search(text, items):
            items = re.sub(text, "$" + var, items)
            args.append((var, None))
            return True
        return False
    vals = {}
    if how in ("mr_tr", "mr_both"):
        for text, var, val in ((r"Delegate\{TR\}", "dtr", "Delegate{TR}"), (r"\{TR\}Impl", "tri", "{TR}Impl"), (r"\{TR\}Mock", "trm", "{TR}Mock"), (r"\{TR\}", "tr", "{TR}")):
            if arg(text, var):
                vals[var] = val
    if how in ("mr_idents", "mr_both"):
        for i, ident in enumerate(STAMP_IDENTS):
            if arg(r"(?<![A-Za-z0-9_$:])%s(?![A-Za-z0-9_])" % ident, "i%d" % i):
                vals["i%d" % i] = ident
    pats = ", ".join("$%s:ident" % v for v, _ in args)
    call = ", ".join(vals[v] for v, _ in args)
    return "macro_rules! stamp {{ (%s) => {{\n    %s\n    }} }}\n    stamp!(%s);" % (pats, items, call)


def render(s):
    key = s["key"]
    items, client, exp = PROGRAMS[s["prog"]]
    if s["scope"] in STAMPS:
        items = stamp(items, s["scope"])
    L = ["mod %s {" % key, "    use super::rt;"]
    if s["scope"] == "all":
        L += ["    " + d for k, d in DECOYS.items() if not k.startswith("i_")]   # (the imports would clash with the local items of the same name)
    elif s["scope"].startswith("all_but_"):
        skip = s["scope"][len("all_but_"):]
        L += ["    " + d for k, d in DECOYS.items() if not k.endswith("_" + skip) and k != "v_consts" and not k.startswith("i_")]
    elif s["scope"] in STAMPS:
        pass
    elif s["scope"] != "none":
        L.append("    " + DECOYS[s["scope"]])
    L.append("    " + items.replace("{{", "\x00").replace("}}", "\x01").replace("{TR}", s["name"]).replace("\x00", "{").replace("\x01", "}"))
    L.append("    pub fn client() {")
    L += ["        " + c.replace("{TR}", s["name"]) for c in client]
    L += ["    }", "}"]
    return engine.Unit(key, "\n".join(L), 'rt::run("%s", %s::client);' % (key, key), s)


def no_std_source():
    L = ["#![no_std]", "#![allow(warnings)]"]
    for prog, (items, client, exp) in PROGRAMS.items():
        if prog in MOCK_PROGRAMS:
            continue
        if "async_trait" in items:
            continue   # async_trait itself needs alloc (Box): dynamic + async is outside the no_std claim
        L.append("pub mod p_%s {" % prog)
        L.append("    " + items.replace("{{", "\x00").replace("}}", "\x01").replace("{TR}", "Tr").replace("\x00", "{").replace("\x01", "}"))
        L.append("}")
    return "\n".join(L) + "\n"


ONLY_DEP_SRC = """#![allow(warnings)]
pub mod p_fn { #[::entrait::entrait(pub Tr, mock_api = TrMock)] pub fn f(deps: &impl ::core::any::Any, a: i64) -> i64 { a } }
pub mod p_mod { #[::entrait::entrait(pub Tr, mock_api = TrMock)] pub mod m { pub fn f(deps: &impl ::core::any::Any, a: i64) -> i64 { a } pub async fn g(deps: &impl ::core::any::Any) {} } }
pub mod p_nodeps { #[::entrait::entrait(pub Tr, mock_api = TrMock, no_deps)] pub fn f(a: i64) -> i64 { a } }
pub mod p_trait { #[::entrait::entrait] pub trait Tr { fn m(&self, a: i64) -> i64; } }
pub mod p_trait_api { #[::entrait::entrait(mock_api = TrMock)] pub trait Tr { fn m(&self, a: i64) -> i64; async fn n(&self); } }
pub mod p_trait_ref { #[::entrait::entrait(delegate_by = ref)] pub trait Tr { fn m(&self, a: i64) -> i64; } }
pub mod p_target { #[::entrait::entrait(TrImpl, delegate_by = DelegateTr)] pub trait Tr { fn m(&self, a: i64) -> i64; } }
pub mod p_export { #[::entrait::entrait_export(pub Tr, mock_api = TrMock)] pub fn f(deps: &impl ::core::any::Any, a: i64) -> i64 { a } }
pub mod p_export_trait { #[::entrait::entrait_export] pub trait Tr { fn m(&self, a: i64) -> i64; } }
pub mod p_concrete { pub struct Cfg; #[::entrait::entrait(pub Tr)] pub fn f(deps: &Cfg, a: i64) -> i64 { a } }
"""


def scan_paths(rec, view_paths):
    """Paths of the generated part that are not self-contained."""
    inp = set(engine.tt_flat_idents(rec["input_tt"])) | set(engine.tt_flat_idents(rec["attr_tt"]))
    bad = []
    for p in view_paths:
        segs = p["segments"]
        if p["leading_colon"]:
            if segs[0] not in ALLOWED_ROOTS and segs[0] not in inp:
                bad.append(p["tokens"])
            continue
        if segs[0] in MACRO_IDENTS or segs[0] in inp or segs[0] in BUILTIN_ATTRS:
            continue
        # names derived from input idents by the macro (renamed parameters `foo_`, generated argN)
        if segs[0].rstrip("_") in inp or (segs[0].lstrip("_").startswith("arg") and segs[0].lstrip("_")[3:].isdigit()):
            continue
        bad.append(p["tokens"])
    return bad


def generated_part(rec):
    it, ot = rec["input_tt"], rec["output_tt"]
    # fn mode: strict prefix; mod mode: inside the module; otherwise: whole output minus tokens equal to the input
    n = len(it)
    if engine.tt_loose(ot[:n]) == engine.tt_loose(it):
        return ot[n:]
    return ot


def evaluate(states, report, tier):
    normal = [s for s in states if s["scope"] not in ("no_std", "only_dep")]
    units = [render(s) for s in normal]
    results = {}
    for mock in (False, True):
        group = [u for s, u in zip(normal, units) if bool(s.get("mock")) == mock]
        if group:
            res, stats = engine.execute(group, feature=mock, mode="run", cfg_test=mock)
            results.update(res)
            report.phases.append(dict(stats, feature=mock, cfg_test=mock))
    # structural scan requests
    reqs, keys = [], []
    for s in normal:
        for j, r in enumerate(results[s["key"]].records):
            if "output_tt" in r:
                reqs.append(dict(op="paths", tt=generated_part(r)))
                keys.append((s["key"], j))
    scans = dict(zip(keys, engine.tokview(reqs)))
    baseline = {}
    for s in normal:
        if s["scope"] == "none" and s["name"] == "Tr":
            baseline[s["prog"]] = results[s["key"]]
    for s, u in zip(normal, units):
        res = results[s["key"]]
        exp = PROGRAMS[s["prog"]][2]
        problems = []
        obs = {}
        if any("panic" in r for r in res.records):
            problems.append(("macro-panic", str([r.get("panic") for r in res.records])))
        if res.errors:
            problems.append((res.compile_sig(s["key"]), "\n".join(res.brief_errors()[:6])))
        elif res.crashed or "__panic" in res.out:
            problems.append(("client-crash", str(res.crashed or res.out.get("__panic"))))
        else:
            obs["r"] = res.first("r")
            if obs["r"] != exp:
                problems.append(("meaning-changed", "observed %r, model says %r" % (obs["r"], exp)))
            b = baseline.get(s["prog"])
            if b is not None and not b.errors and b.first("r") != obs["r"]:
                problems.append(("differs-from-empty-scope", "%r vs %r in the empty scope" % (obs["r"], b.first("r"))))
        bad_paths = []
        for j, r in enumerate(res.records):
            sc = scans.get((s["key"], j))
            if sc is None:
                continue
            if "error" in sc:
                problems.append(("generated-part-unparsable", sc["error"]))
                continue
            bad_paths += scan_paths(r, sc["paths"])
        obs["relative_paths"] = sorted(set(bad_paths))
        if bad_paths:
            problems.append(("relative-path:" + ",".join(sorted(set(bad_paths)))[:80],
                             "paths in the generated part that are neither absolute nor copied from the input: %s" % sorted(set(bad_paths))))
        report.observe(s["key"], dict(r=exp, relative_paths=[]), obs if not problems else dict(obs, problems=[p[0] for p in problems]),
                       nontrivial=(s["scope"] != "none" or s["name"] != "Tr"), sample=dict(source=u.src), evals=2 + len(res.records))
        for sig, detail in problems:
            tags = {"prog:" + s["prog"], "scope:" + s["scope"], "name:" + s["name"]}
            report.violation(s["key"], tags, sig, detail, state=s, source=engine.standalone_source(u), meta=dict(mode="run", feature=bool(s.get("mock")), cfg_test=bool(s.get("mock"))))
    # ---- #![no_std] library crate containing every input mode
    for s in [x for x in states if x["scope"] == "no_std"]:
        art = engine.build_subject(False)
        src = no_std_source()
        with engine.Workdir() as wd:
            p = os.path.join(wd, "nostd.rs")
            open(p, "w").write(src)
            cmd = engine.rustc_cmd(art, p, os.path.join(wd, "libnostd.rmeta"), "metadata", False, crate_type="lib")
            pr = subprocess.run(cmd, cwd=wd, stdout=subprocess.PIPE, stderr=subprocess.PIPE, text=True)
        ok = pr.returncode == 0
        errs = [l for l in pr.stderr.splitlines() if '"level":"error"' in l][:3]
        report.observe(s["key"], dict(compiles=True), dict(compiles=ok), nontrivial=True, sample=dict(source=src[:1500]), evals=1)
        if not ok:
            import json as _j
            msgs = []
            for l in errs:
                try:
                    msgs.append(_j.loads(l)["message"])
                except ValueError:
                    pass
            report.violation(s["key"], {"scope:no_std"}, "no_std-crate-does-not-compile", "\n".join(msgs), state=s, source=src, meta=dict(mode="check", crate_type="lib"))


    # ---- a crate that depends on entrait ALONE (unimock crate feature on): the mock derivations may not name `::unimock` either
    for s in [x for x in states if x["scope"] == "only_dep"]:
        art = engine.build_subject(True)
        with engine.Workdir() as wd:
            p = os.path.join(wd, "onlydep.rs")
            open(p, "w").write(ONLY_DEP_SRC)
            cmd = engine.rustc_cmd(art, p, os.path.join(wd, "libonlydep.rmeta"), "metadata", s["cfg_test"], crate_type="lib")
            keep, skip = [], False
            for a in cmd:
                if skip:
                    skip = False
                    if a.split("=")[0] != "entrait":
                        continue
                    keep.append("--extern")
                    keep.append(a)
                    continue
                if a == "--extern":
                    skip = True
                    continue
                keep.append(a)
            pr = subprocess.run(keep, cwd=wd, stdout=subprocess.PIPE, stderr=subprocess.PIPE, text=True)
        ok = pr.returncode == 0
        import json as _j
        msgs = []
        for l in pr.stderr.splitlines():
            if '"level":"error"' in l:
                try:
                    msgs.append(_j.loads(l)["message"])
                except ValueError:
                    pass
        report.observe(s["key"], dict(compiles=True), dict(compiles=ok), nontrivial=True, sample=dict(source=ONLY_DEP_SRC[:1500]), evals=1)
        if not ok:
            report.violation(s["key"], {"scope:only_dep", "cfg_test:%s" % s["cfg_test"]}, "crate-with-entrait-as-only-dependency-does-not-compile",
                             "\n".join(msgs[:6]) or pr.stderr[-400:], state=s, source=ONLY_DEP_SRC, meta=dict(mode="check", crate_type="lib", feature=True, cfg_test=s["cfg_test"]))


def run(report, tier):
    states, transitions, bound = enumerate_states(tier)
    report.space(len(states), transitions, bound,
                 "%d programs (every input mode x delegation kind) x {empty scope, each of %d local decoys alone, all together, trait named like "
                 "%s}; plus one #![no_std] lib crate with every mode; non-trivial = any hostile scope / name" % (len(PROGRAMS), len(DECOYS), NAMES))
    evaluate(states, report, tier)
