"""Reporting side of the model checker: evidence files, known findings, violations, replays."""
import hashlib
import json
import os
import re
import sys
import time

from . import engine

VERIF = engine.VERIF
KNOWN_PATH = os.path.join(VERIF, "known_findings.json")


def load_known():
    if not os.path.exists(KNOWN_PATH):
        return []
    with open(KNOWN_PATH) as f:
        return json.load(f).get("findings", [])


class Report:
    def __init__(self, prop_id, tier, seed, replay_mode=False):
        self.prop = prop_id
        self.tier = tier
        self.seed = seed
        self.replay_mode = replay_mode
        self.t0 = time.time()
        self.states = 0
        self.transitions = 0
        self.validated = 0
        self.evaluations = 0
        self.nontrivial = set()
        self.outcomes = set()
        self.samples = []
        self.sample_every = 1
        self.violations = []      # dicts
        self.known_hits = {}      # finding index -> count
        self.bound = {}
        self.rule = ""
        self.exhaustive = True
        self.extra = {}
        self.assumptions = []
        self.phases = []
        self.known = [k for k in load_known() if k.get("property") == prop_id and k.get("status") == "open"]
        self._seen_states = set()

    # ---- coverage accounting -------------------------------------------------------------
    def space(self, states, transitions, bound=None, rule=None):
        """Declare an enumerated state space (may be called once per phase)."""
        self.states += states
        self.transitions += transitions
        if bound:
            self.bound.update(bound)
        if rule:
            self.rule = (self.rule + " | " if self.rule else "") + rule
        n = max(1, states)
        self.sample_every = max(1, n // 4)

    def observe(self, key, model, observed, nontrivial=True, sample=None, evals=1):
        """One state validated against the implementation."""
        if key in self._seen_states:
            raise engine.MachineryError("state observed twice: " + key)
        self._seen_states.add(key)
        self.validated += 1
        self.evaluations += evals
        h = hashlib.sha1(json.dumps(observed, sort_keys=True, default=str).encode()).hexdigest()
        self.outcomes.add(h)
        if nontrivial:
            self.nontrivial.add(key)
        if sample is not None and len(self.samples) < 6 and (self.validated + self.seed) % self.sample_every == 0:
            s = dict(sample)
            s.setdefault("state", key)
            s.setdefault("model", model)
            s.setdefault("observed", observed)
            self.samples.append(_truncate(s))
        elif sample is not None and not self.samples:
            s = dict(sample)
            s.setdefault("state", key)
            s.setdefault("model", model)
            s.setdefault("observed", observed)
            self._first_sample = _truncate(s)

    # ---- violations -----------------------------------------------------------------------
    def violation(self, key, tags, signature, detail, state=None, source=None, meta=None):
        tags = set(tags)
        for i, k in enumerate(self.known):
            if set(k.get("tags", [])) <= tags and re.search(k["signature"], signature):
                self.known_hits[i] = self.known_hits.get(i, 0) + 1
                return False
        self.violations.append({"key": key, "tags": sorted(tags), "signature": signature, "detail": detail,
                                "state": state, "source": source, "meta": meta or {}})
        return True

    # ---- finishing --------------------------------------------------------------------------
    def write_replay(self, v):
        d = os.path.join(VERIF, "replays", self.prop)
        os.makedirs(d, exist_ok=True)
        name = re.sub(r"[^A-Za-z0-9_.-]", "_", v["key"])[:120] + ".rs"
        path = os.path.join(d, name)
        head = {"property": self.prop, "state": v["state"], "tags": v["tags"], "signature": v["signature"],
                "detail": v["detail"], "meta": v["meta"]}
        with open(path, "w") as f:
            f.write("//VERIF-REPLAY " + json.dumps(head, sort_keys=True, default=str) + "\n")
            f.write("// property %s violated; signature: %s\n" % (self.prop, v["signature"]))
            for line in str(v["detail"]).splitlines():
                f.write("// " + line + "\n")
            f.write("// replay: ./check %s --replay %s\n" % (self.prop, path))
            f.write(v["source"] or "// (no source)\n")
        return path

    def finish(self):
        wall = time.time() - self.t0
        if not self.samples and getattr(self, "_first_sample", None):
            self.samples.append(self._first_sample)
        for i, n in sorted(self.known_hits.items()):
            k = self.known[i]
            print("KNOWN-FINDING: property=%s %s [%d state(s); tags=%s]"
                  % (self.prop, k.get("what", k.get("description", ""))[:200], n, ",".join(k.get("tags", []))))
        # machinery sanity: vacuity guards
        if not self.replay_mode:
            if self.validated != self.states:
                raise engine.MachineryError("validated %d of %d states" % (self.validated, self.states))
            if len(self.outcomes) < 2:
                raise engine.MachineryError("vacuous exploration: %d outcome class(es)" % len(self.outcomes))
        paths = []
        shown = {}
        for v in self.violations:
            sig = (tuple(v["tags"]), v["signature"])
            # write at most a handful of replay files per failure signature
            shown[sig] = shown.get(sig, 0) + 1
            if shown[sig] <= 3 and len(paths) < 40:
                paths.append(self.write_replay(v))
        for p in paths:
            print("VIOLATION property=%s replay=%s" % (self.prop, p))
        if self.violations:
            print("%s: %d violating state(s), %d distinct signature(s)" % (self.prop, len(self.violations), len(shown)))
            bysig = {}
            for (tags, sig), n in shown.items():
                e = bysig.setdefault(sig, [0, tags])
                e[0] += n
            for sig, (n, tags) in sorted(bysig.items(), key=lambda kv: -kv[1][0])[:40]:
                print("  %5d x %s  e.g. tags=%s" % (n, sig[:160], ",".join(tags)))
        if not self.replay_mode:
            ev = {
                "property_id": self.prop,
                "tier": self.tier,
                "seed": self.seed,
                "level": "model_checking",
                "coverage": dict({
                    "states": self.states,
                    "transitions": max(self.transitions, 1),
                    "traces_validated_against_impl": self.validated,
                    "evaluations": self.evaluations,
                    "distinct_nontrivial": len(self.nontrivial),
                    "outcome_classes": len(self.outcomes),
                    "rule": self.rule,
                    "bound": self.bound,
                    "exhaustive": self.exhaustive,
                    "samples": self.samples,
                    "known_findings_hit": {self.known[i].get("id", str(i)): n for i, n in self.known_hits.items()},
                    "phases": self.phases,
                }, **self.extra),
                "assumptions": self.assumptions,
                "wall_s": round(wall, 2),
                "violations": len(self.violations),
            }
            os.makedirs(os.path.join(VERIF, "evidence"), exist_ok=True)
            with open(os.path.join(VERIF, "evidence", self.prop + ".json"), "w") as f:
                json.dump(ev, f, indent=1, sort_keys=True, default=str)
                f.write("\n")
        print("%s %s: states=%d transitions=%d validated=%d evaluations=%d outcome_classes=%d known=%d violations=%d wall=%.1fs"
              % (self.prop, self.tier, self.states, self.transitions, self.validated, self.evaluations,
                 len(self.outcomes), sum(self.known_hits.values()), len(self.violations), wall))
        return 1 if self.violations else 0


def _truncate(o, n=1200):
    if isinstance(o, str):
        return o if len(o) <= n else o[:n] + "...<%d more>" % (len(o) - n)
    if isinstance(o, dict):
        return {k: _truncate(v, n) for k, v in o.items()}
    if isinstance(o, (list, tuple)):
        return [_truncate(v, n) for v in list(o)[:40]]
    return o


def evaluate_chunked(evaluate, states, report, tier, size=50000):
    """Runs `evaluate` over consecutive slices of the state list, so that the sources, diagnostics and recorded token trees of at
    most `size` states are held in memory at a time (the verdict of a state never depends on another state in the checks that use this)."""
    cap_gb = float(os.environ.get("VERIF_RSS_CAP_GB", "40"))
    for i in range(0, len(states), size):
        evaluate(states[i:i + size], report, tier)
        rss = _rss_gb()
        if rss > cap_gb:
            # a cap inside the engine: a machinery exit (2) instead of the kernel's OOM killer taking the run down without a verdict
            raise engine.MachineryError("resident memory %.1f GB exceeds the cap of %.0f GB after %d of %d states" % (rss, cap_gb, i + size, len(states)))


def _rss_gb():
    try:
        with open("/proc/self/status") as f:
            for line in f:
                if line.startswith("VmRSS:"):
                    return int(line.split()[1]) / 1024.0 / 1024.0
    except OSError:
        pass
    return 0.0


def words(alphabet, maxlen, minlen=0):
    """All words over `alphabet` of length minlen..maxlen, shortest first (BFS order).
    Returns (list of tuples, number of transitions = edges of the word tree explored)."""
    level = [()]
    out = []
    transitions = 0
    if minlen == 0:
        out.append(())
    for n in range(1, maxlen + 1):
        nxt = []
        for w in level:
            for a in alphabet:
                nxt.append(w + (a,))
                transitions += 1
        level = nxt
        if n >= minlen:
            out.extend(level)
    return out, transitions
