#!/bin/sh
# Build the framework offline from files on disk: tokview helper, helper proc-macros, subject (both feature sets, hooks on).
set -e
cd "$(dirname "$0")"
export CARGO_NET_OFFLINE=true
python3 - <<'PY'
import sys
sys.path.insert(0, ".")
from mc import engine
engine.build_tokview()
try:
    engine.build_helper_macros()
except Exception as e:
    print("helper-macros:", e)
engine.build_subject(False)
engine.build_subject(True)
print("setup ok")
PY
